// verifsim is the orchestrator: it builds the simulation worker against
// /repo's working tree, fans scenarios out to worker processes, confirms
// and minimises violations, matches them against known findings, writes
// replay files and evidence, and sets the exit status (0 held / 1
// violation / 2 infrastructure trouble).
package main

import (
	"bufio"
	"encoding/json"
	"flag"
	"fmt"
	"os"
	"os/exec"
	"path/filepath"
	"sort"
	"strconv"
	"strings"
	"sync"
	"syscall"
	"time"

	"verifsim/wire"
)

var (
	root      = envOr("VERIF_ROOT", "/verif")
	repo      = envOr("VERIF_REPO", "/repo")
	goBin     = envOr("VERIF_GO", "go1.26.8")
	simDir    string
	binDir    string
	workerBin string
)

func envOr(k, d string) string {
	if v := os.Getenv(k); v != "" {
		return v
	}
	return d
}

func main() {
	simDir = filepath.Join(root, "sim")
	binDir = filepath.Join(simDir, "bin")
	// one worker binary per orchestrator process: two checks running at the same time (against
	// different trees, say) must never start each other's workers
	workerBin = filepath.Join(binDir, fmt.Sprintf("worker-%d.test", os.Getpid()))
	if len(os.Args) < 2 {
		usage()
	}
	done := func(code int) {
		os.Remove(workerBin)
		os.Exit(code)
	}
	switch os.Args[1] {
	case "check":
		done(cmdCheck(os.Args[2:]))
	case "replay":
		done(cmdReplay(os.Args[2:]))
	case "selftest":
		done(cmdSelftest(os.Args[2:]))
	case "one":
		done(cmdOne(os.Args[2:]))
	case "seq":
		done(cmdSeq(os.Args[2:]))
	case "build":
		workerBin = filepath.Join(binDir, "worker.test") // build only: checks that the worker compiles
		if err := buildWorker(); err != nil {
			fmt.Fprintln(os.Stderr, err)
			os.Exit(2)
		}
	default:
		usage()
	}
}

func usage() {
	fmt.Fprintln(os.Stderr, `usage:
  verifsim check <property> [--tier quick|thorough] [--n N] [--workers W] [--seed S]
  verifsim replay <file>
  verifsim selftest [--props C01,C05] [--n N]
  verifsim one <property> <index> [--seed S] [--tier T] [--trace]
  verifsim build`)
	os.Exit(2)
}

// ---------------------------------------------------------------- build

func goEnv() []string {
	env := os.Environ()
	env = append(env, "GOFLAGS=-mod=mod", "GOPROXY=off", "GOSUMDB=off", "GOTOOLCHAIN=local", "CGO_ENABLED=0")
	return env
}

func buildWorker() error {
	if os.Getenv("VERIF_NOBUILD") != "" {
		if _, err := os.Stat(workerBin); err == nil {
			return nil
		}
	}
	os.MkdirAll(binDir, 0o755)
	// go.sum of the harness module = go.sum of the repository (same dependencies)
	if b, err := os.ReadFile(filepath.Join(repo, "go.sum")); err == nil {
		os.WriteFile(filepath.Join(simDir, "go.sum"), b, 0o644)
	}
	tmp := workerBin + fmt.Sprintf(".%d", os.Getpid())
	args := []string{"test", "-c", "-tags", "verif", "-o", tmp}
	if repo != "/repo" {
		// another tree than /repo (a snapshot used by a background run): same module file with
		// the replace directive pointing there, given to the go command with -modfile
		if b, err := os.ReadFile(filepath.Join(simDir, "go.mod")); err == nil {
			alt := strings.Replace(string(b), "=> /repo", "=> "+repo, 1)
			name := fmt.Sprintf("go.alt.%d", os.Getpid())
			os.WriteFile(filepath.Join(simDir, name+".mod"), []byte(alt), 0o644)
			if sum, err := os.ReadFile(filepath.Join(repo, "go.sum")); err == nil {
				os.WriteFile(filepath.Join(simDir, name+".sum"), sum, 0o644)
			}
			defer os.Remove(filepath.Join(simDir, name+".mod"))
			defer os.Remove(filepath.Join(simDir, name+".sum"))
			args = append(args, "-modfile="+name+".mod")
		}
	}
	args = append(args, "./worker/")
	cmd := exec.Command(goBin, args...)
	cmd.Dir = simDir
	cmd.Env = goEnv()
	out, err := cmd.CombinedOutput()
	if err != nil {
		os.Remove(tmp)
		return fmt.Errorf("building the worker against %s failed:\n%s", repo, out)
	}
	return os.Rename(tmp, workerBin)
}

// ---------------------------------------------------------------- workers

type worker struct {
	id    int
	cmd   *exec.Cmd
	enc   *json.Encoder
	lines chan []byte
	inW   *os.File
	crash string
	dead  bool
}

var workerSeq int
var workerMu sync.Mutex

func startWorker() (*worker, error) {
	workerMu.Lock()
	workerSeq++
	id := workerSeq
	workerMu.Unlock()
	cr, cw, err := os.Pipe()
	if err != nil {
		return nil, err
	}
	rr, rw, err := os.Pipe()
	if err != nil {
		return nil, err
	}
	crash := filepath.Join(os.TempDir(), fmt.Sprintf("verifsim-crash-%d-%d.txt", os.Getpid(), id))
	cmd := exec.Command(workerBin, "-test.run", "^TestWorker$", "-test.timeout", "0")
	cmd.Env = append(os.Environ(), "VERIF_WORKER=1", "VERIF_CRASH_FILE="+crash, "GOMAXPROCS="+envOr("VERIF_WORKER_GOMAXPROCS", "1"), "GOMEMLIMIT=3GiB")
	cmd.ExtraFiles = []*os.File{cr, rw}
	devnull, _ := os.OpenFile(os.DevNull, os.O_RDWR, 0)
	cmd.Stdin = devnull
	cmd.Stdout = devnull
	if os.Getenv("VERIF_WORKER_STDERR") != "" {
		cmd.Stderr = os.Stderr
	} else {
		cmd.Stderr = devnull
	}
	if err := cmd.Start(); err != nil {
		return nil, err
	}
	cr.Close()
	rw.Close()
	w := &worker{id: id, cmd: cmd, enc: json.NewEncoder(cw), inW: cw, crash: crash, lines: make(chan []byte, 64)}
	go func() {
		rd := bufio.NewReaderSize(rr, 1<<20)
		for {
			line, err := rd.ReadBytes('\n')
			if len(line) > 0 {
				w.lines <- line
			}
			if err != nil {
				close(w.lines)
				rr.Close()
				return
			}
		}
	}()
	return w, nil
}

func (w *worker) stop() {
	if w == nil || w.dead {
		return
	}
	w.dead = true
	w.enc.Encode(wire.Cmd{Op: "quit"})
	w.inW.Close()
	done := make(chan struct{})
	go func() { w.cmd.Wait(); close(done) }()
	select {
	case <-done:
	case <-time.After(3 * time.Second):
		w.cmd.Process.Kill()
		<-done
	}
	os.Remove(w.crash)
}

func (w *worker) kill(quit bool) string {
	w.dead = true
	if quit {
		w.cmd.Process.Signal(syscall.SIGQUIT)
		time.Sleep(300 * time.Millisecond)
	}
	w.cmd.Process.Kill()
	w.cmd.Wait()
	w.inW.Close()
	b, _ := os.ReadFile(w.crash)
	os.Remove(w.crash)
	return string(b)
}

// runCmd sends one command and streams results until Done. It returns
// the index in flight if the worker died or hung, with the crash text.
type runEnd struct {
	ok       bool
	inFlight int
	hung     bool
	crash    string
	recycle  bool
	err      string
}

func (w *worker) runCmd(c wire.Cmd, hang time.Duration, onResult func(*wire.Result)) runEnd {
	if err := w.enc.Encode(c); err != nil {
		return runEnd{inFlight: -1, crash: w.kill(false), err: err.Error()}
	}
	inFlight := -1
	timer := time.NewTimer(hang)
	defer timer.Stop()
	for {
		select {
		case line, ok := <-w.lines:
			if !ok {
				return runEnd{inFlight: inFlight, crash: w.kill(false)}
			}
			if !timer.Stop() {
				select {
				case <-timer.C:
				default:
				}
			}
			timer.Reset(hang)
			var m wire.Msg
			if err := json.Unmarshal(line, &m); err != nil {
				return runEnd{inFlight: inFlight, crash: w.kill(false), err: "bad message: " + err.Error()}
			}
			switch {
			case m.Start != nil:
				inFlight = *m.Start
			case m.Result != nil:
				inFlight = -1
				onResult(m.Result)
			case m.Done:
				if m.Err == "recycle" {
					w.stop()
					return runEnd{ok: true, recycle: true}
				}
				return runEnd{ok: true}
			case m.Err != "":
				return runEnd{inFlight: inFlight, crash: w.kill(false), err: m.Err}
			}
		case <-timer.C:
			return runEnd{inFlight: inFlight, hung: true, crash: w.kill(true)}
		}
	}
}

// execOne runs one scenario in a fresh worker.
func execOne(sc *wire.Scenario, hang time.Duration, trace bool) (*wire.Result, runEnd) {
	w, err := startWorker()
	if err != nil {
		return nil, runEnd{err: err.Error()}
	}
	defer w.stop()
	return execOn(w, sc, hang, trace)
}

func execOn(w *worker, sc *wire.Scenario, hang time.Duration, trace bool) (*wire.Result, runEnd) {
	var res *wire.Result
	end := w.runCmd(wire.Cmd{Op: "exec", Scenario: sc, Trace: trace}, hang, func(r *wire.Result) { res = r })
	return res, end
}

// crashResult turns a dead or hung worker into a violation candidate.
func crashResult(prop string, idx int, end runEnd) *wire.Result {
	res := &wire.Result{Prop: prop, Index: idx, Verdict: "violation", Counters: map[string]int{}}
	if end.hung {
		res.Class = "SPIN"
		res.Oracle = prop + ".no-spin"
		res.Sig = "spin:" + spinFrame(end.crash)
		res.Msg = "worker made no progress within the watchdog (a task never reached a simulator point again)\n" + firstLines(end.crash, 40)
		return res
	}
	res.Class = "CRASH"
	res.Oracle = prop + ".no-crash"
	first := ""
	for _, l := range strings.Split(end.crash, "\n") {
		if strings.HasPrefix(l, "panic:") || strings.HasPrefix(l, "fatal error:") || strings.Contains(l, "stack overflow") || strings.HasPrefix(l, "runtime: goroutine stack exceeds") {
			first = l
			break
		}
	}
	kind := "other"
	switch {
	case strings.Contains(end.crash, "stack overflow") || strings.Contains(end.crash, "stack exceeds"):
		kind = "stackoverflow"
	case strings.Contains(first, "concurrent map"):
		kind = "concurrentmap"
	case strings.Contains(first, "index out of range"):
		kind = "index"
	case strings.Contains(first, "slice bounds"):
		kind = "slice"
	case strings.Contains(first, "nil pointer"):
		kind = "nil"
	case strings.Contains(first, "out of memory") || strings.Contains(first, "cannot allocate"):
		kind = "oom"
	}
	res.Sig = "crash:" + kind + ":" + topRepoFrame(end.crash)
	res.Msg = "worker process died: " + first + "\n" + firstLines(end.crash, 30)
	if end.crash == "" {
		res.Msg = "worker process died without crash output: " + end.err
	}
	return res
}

// spinFrame names the command a spinning main task is executing: the
// innermost root-package method of the running goroutine that is inside
// Readline. This is stable across samples of the same loop.
func spinFrame(dump string) string {
	// first choice: the goroutine that is inside Readline and not parked at a simulator point
	for _, blk := range strings.Split(dump, "\n\n") {
		if !strings.Contains(blk, "readline.(*Shell).Readline") || strings.Contains(blk, "verifsim/sim.(*Session).park") {
			continue
		}
		for _, l := range strings.Split(blk, "\n") {
			l = strings.TrimSpace(l)
			if strings.HasPrefix(l, "github.com/reeflective/readline.(*Shell).") {
				if i := strings.LastIndex(l, "("); i > 0 {
					l = l[:i]
				}
				return strings.TrimPrefix(l, "github.com/reeflective/readline.")
			}
		}
	}
	for _, blk := range strings.Split(dump, "\n\n") {
		lines := strings.Split(blk, "\n")
		if len(lines) == 0 || !strings.HasPrefix(lines[0], "goroutine ") {
			continue
		}
		if !strings.Contains(lines[0], "running") && !strings.Contains(lines[0], "runnable") {
			continue
		}
		if !strings.Contains(blk, "readline.(*Shell).Readline") && !strings.Contains(blk, "reeflective/readline") {
			continue
		}
		for _, l := range lines {
			l = strings.TrimSpace(l)
			if strings.HasPrefix(l, "github.com/reeflective/readline.(*Shell).") {
				if i := strings.LastIndex(l, "("); i > 0 {
					l = l[:i]
				}
				return strings.TrimPrefix(l, "github.com/reeflective/readline.")
			}
		}
		return topRepoFrame(blk)
	}
	return topRepoFrame(dump)
}

func topRepoFrame(dump string) string {
	for _, l := range strings.Split(dump, "\n") {
		l = strings.TrimSpace(l)
		if strings.HasPrefix(l, "github.com/reeflective/readline") && !strings.Contains(l, "Verif") {
			if i := strings.LastIndex(l, "("); i > 0 {
				l = l[:i]
			}
			l = strings.TrimPrefix(l, "github.com/reeflective/readline")
			return strings.TrimPrefix(l, "/")
		}
	}
	return "?"
}

func firstLines(s string, n int) string {
	ls := strings.Split(s, "\n")
	if len(ls) > n {
		ls = ls[:n]
	}
	return strings.Join(ls, "\n")
}

// ---------------------------------------------------------------- known findings

type finding struct {
	prop, sig, replay, text string
}

func loadFindings(prop string) []finding {
	var out []finding
	b, err := os.ReadFile(filepath.Join(root, "known-findings.txt"))
	if err != nil {
		return nil
	}
	for _, l := range strings.Split(string(b), "\n") {
		l = strings.TrimSpace(l)
		if !strings.HasPrefix(l, "finding:") {
			continue
		}
		f := finding{}
		rest := strings.TrimSpace(strings.TrimPrefix(l, "finding:"))
		var words []string
		for _, wd := range strings.Fields(rest) {
			switch {
			case strings.HasPrefix(wd, "property=") && f.prop == "":
				f.prop = strings.TrimPrefix(wd, "property=")
			case strings.HasPrefix(wd, "sig=") && f.sig == "":
				f.sig = strings.TrimPrefix(wd, "sig=")
			case strings.HasPrefix(wd, "replay=") && f.replay == "":
				f.replay = strings.TrimPrefix(wd, "replay=")
			default:
				words = append(words, wd)
			}
		}
		f.text = strings.Join(words, " ")
		if f.prop == prop {
			out = append(out, f)
		}
	}
	return out
}

// ---------------------------------------------------------------- check

// crashProps are the properties whose statements cover crashes and spins of the process.
var crashProps = map[string]bool{"C01": true, "C09": true, "C10": true, "C12": true, "C20": true}

type tierCfg struct {
	n       int
	hang    time.Duration
	minim   int
	maxWall time.Duration
}

type agg struct {
	mu        sync.Mutex
	evals     int
	sessions  int
	steps     int
	counters  map[string]int
	sigs      map[string]struct{}
	ils       map[string]struct{}
	states    map[string]struct{}
	nontriv   int
	samples   []any
	viol      map[string][]*wire.Result // by sig
	violCount map[string]int
	errors    []string
	restarts  int
	watchdog  int
}

func newAgg() *agg {
	return &agg{counters: map[string]int{}, sigs: map[string]struct{}{}, ils: map[string]struct{}{}, states: map[string]struct{}{},
		viol: map[string][]*wire.Result{}, violCount: map[string]int{}}
}

func (a *agg) add(r *wire.Result) {
	a.mu.Lock()
	defer a.mu.Unlock()
	a.evals++
	a.sessions += r.Sessions
	a.steps += r.Steps
	for k, v := range r.Counters {
		a.counters[k] += v
	}
	if r.Nontrivial && r.SigHash != "" {
		a.sigs[r.SigHash] = struct{}{}
	}
	if r.Nontrivial {
		a.nontriv++
	}
	if r.ILHash != "" {
		a.ils[r.ILHash] = struct{}{}
	}
	for _, s := range r.States {
		a.states[s] = struct{}{}
	}
	if r.Sample != nil && len(a.samples) < 5 {
		a.samples = append(a.samples, r.Sample)
	}
	switch r.Verdict {
	case "violation":
		key := r.Class + "|" + r.Oracle + "|" + r.Sig
		a.violCount[key]++
		// three candidates per signature, and up to two more per scenario family beyond them: a candidate that
		// fails only because of what the worker process ran before it does not reproduce alone, and must not
		// use up the tries of one from another family that does
		sameFam := 0
		for _, c := range a.viol[key] {
			if c.Scenario != nil && r.Scenario != nil && c.Scenario.Family == r.Scenario.Family {
				sameFam++
			}
		}
		if len(a.viol[key]) < 3 || (len(a.viol[key]) < 12 && sameFam < 2) {
			a.viol[key] = append(a.viol[key], r)
		}
	case "error":
		if len(a.errors) < 10 {
			a.errors = append(a.errors, fmt.Sprintf("index %d: %s", r.Index, r.Msg))
		}
	}
}

func cmdCheck(args []string) int {
	if len(args) < 1 {
		usage()
	}
	prop := args[0]
	fs := flag.NewFlagSet("check", flag.ExitOnError)
	tier := fs.String("tier", envOr("VERIF_TIER", "quick"), "quick|thorough")
	nFlag := fs.Int("n", 0, "number of scenarios (0 = the property's tier budget)")
	workers := fs.Int("workers", 16, "worker processes")
	seedFlag := fs.String("seed", os.Getenv("VERIF_SEED"), "seed")
	maxWall := fs.Duration("max-wall", 0, "stop generating after this long")
	noMin := fs.Bool("no-minimise", false, "skip minimisation")
	propose := fs.Bool("propose", false, "developer aid: write each new violation's replay under findings/ and print a candidate known-findings line (never used by registered checks)")
	fs.Parse(args[1:])
	t0 := time.Now()

	seed := uint64(20260926)
	if *seedFlag != "" {
		v, err := strconv.ParseInt(*seedFlag, 10, 64)
		if err != nil {
			u, err2 := strconv.ParseUint(*seedFlag, 10, 64)
			if err2 != nil {
				fmt.Fprintln(os.Stderr, "bad seed")
				return 2
			}
			seed = u
		} else {
			seed = uint64(v)
		}
	}
	// (no VERIF_SEED: the same built-in seed for both tiers, so that "the thorough tier on the unchanged
	// tree" is a repeatable statement; other seeds are one environment variable away)
	fmt.Printf("verifsim: property=%s tier=%s seed=%d\n", prop, *tier, int64(seed))

	if err := buildWorker(); err != nil {
		fmt.Fprintln(os.Stderr, err)
		return 2
	}
	cfg := tierCfg{hang: 8 * time.Second, minim: 250, maxWall: 100 * time.Second}
	if *tier == "thorough" {
		cfg = tierCfg{hang: 20 * time.Second, minim: 1500, maxWall: 15 * time.Minute}
	}
	if *maxWall > 0 {
		cfg.maxWall = *maxWall
	}
	// ask a worker for the budget
	n := *nFlag
	if n == 0 {
		b, err := queryBudget(prop, *tier)
		if err != nil {
			fmt.Fprintln(os.Stderr, "cannot query budget:", err)
			return 2
		}
		n = b
	}
	cfg.n = n

	a := newAgg()
	chunk := 40
	if n/(*workers*8) > chunk {
		chunk = n / (*workers * 8)
	}
	if chunk > 2000 {
		chunk = 2000
	}
	type span struct{ from, to int }
	spans := make(chan span, n/chunk+2)
	for i := 0; i < n; i += chunk {
		to := i + chunk
		if to > n {
			to = n
		}
		spans <- span{i, to}
	}
	close(spans)
	deadline := t0.Add(cfg.maxWall)
	var wg sync.WaitGroup
	var candMu sync.Mutex
	var crashCands []*wire.Result
	infra := false
	truncated := false
	for wi := 0; wi < *workers; wi++ {
		wg.Add(1)
		go func() {
			defer wg.Done()
			var w *worker
			defer func() { w.stop() }()
			fails := 0
			for sp := range spans {
				from := sp.from
				for from < sp.to {
					if time.Now().After(deadline) {
						truncated = true
						return
					}
					if w == nil || w.dead {
						var err error
						w, err = startWorker()
						if err != nil {
							a.mu.Lock()
							a.errors = append(a.errors, "start worker: "+err.Error())
							infra = true
							a.mu.Unlock()
							return
						}
					}
					last := from - 1
					end := w.runCmd(wire.Cmd{Op: "gen", Prop: prop, Tier: *tier, Seed: seed, From: from, To: sp.to, Sample: true}, cfg.hang,
						func(r *wire.Result) { last = r.Index; a.add(r) })
					if end.ok && !end.recycle {
						from = sp.to
						continue
					}
					if end.recycle {
						from = last + 1
						continue
					}
					a.mu.Lock()
					a.restarts++
					if end.hung {
						a.watchdog++
					}
					a.mu.Unlock()
					if end.inFlight >= 0 {
						candMu.Lock()
						crashCands = append(crashCands, crashResult(prop, end.inFlight, end))
						candMu.Unlock()
						from = end.inFlight + 1
						fails = 0
					} else {
						fails++
						a.mu.Lock()
						a.errors = append(a.errors, "worker failed outside a scenario: "+end.err+" "+firstLines(end.crash, 5))
						a.mu.Unlock()
						if fails > 3 {
							a.mu.Lock()
							infra = true
							a.mu.Unlock()
							return
						}
					}
				}
			}
		}()
	}
	wg.Wait()
	genWall := time.Since(t0)
	fmt.Printf("verifsim: %d scenarios, %d sessions, %d scheduler steps in %.1fs (%d worker restarts)\n", a.evals, a.sessions, a.steps, genWall.Seconds(), a.restarts)
	if truncated {
		fmt.Printf("verifsim: NOTE wall-clock cap reached, %d of %d scenarios run\n", a.evals, n)
	}

	// crashed / hung scenarios: regenerate and confirm alone
	for _, c := range crashCands {
		fmt.Printf("verifsim: worker died or hung in scenario %d (%s %s)\n", c.Index, c.Class, c.Sig)
		if !crashProps[prop] {
			// crashes and spins are judged by the properties that are about them
			a.mu.Lock()
			a.counters["skipped:worker_died_or_hung"]++
			a.mu.Unlock()
			continue
		}
		sc, err := fetchScenario(prop, *tier, seed, c.Index)
		if err != nil {
			a.errors = append(a.errors, "cannot regenerate crashed scenario: "+err.Error())
			infra = true
			continue
		}
		c.Scenario = sc
		a.mu.Lock()
		key := c.Class + "|" + c.Oracle + "|" + c.Sig
		a.violCount[key]++
		if len(a.viol[key]) < 3 {
			a.viol[key] = append(a.viol[key], c)
		}
		a.mu.Unlock()
	}

	// ---- confirm, minimise, report
	findings := loadFindings(prop)
	matched := map[string]bool{}
	var violations []string
	var notes []string
	unrepro := 0
	keys := make([]string, 0, len(a.viol))
	for k := range a.viol {
		keys = append(keys, k)
	}
	sort.Strings(keys)
	os.MkdirAll(filepath.Join(root, "replays"), 0o755)
	type job struct {
		key string
		out func() (rep *wire.Replay, ok bool, note string)
	}
	results := make([]struct {
		rep  *wire.Replay
		ok   bool
		note string
	}, len(keys))
	sem := make(chan struct{}, *workers)
	var jwg sync.WaitGroup
	for ki, key := range keys {
		jwg.Add(1)
		sem <- struct{}{}
		go func(ki int, key string) {
			defer jwg.Done()
			defer func() { <-sem }()
			cands := a.viol[key]
			sort.Slice(cands, func(i, j int) bool { return len(cands[i].Scenario.Script) < len(cands[j].Scenario.Script) })
			for _, c := range cands {
				known := false
				for _, f := range findings {
					if f.sig == c.Sig {
						known = true
					}
				}
				budget := cfg.minim
				if known || *noMin {
					budget = 0
				}
				h := cfg.hang * 3
				if c.Class == "SPIN" {
					h = cfg.hang + 4*time.Second
					if budget > 40 {
						budget = 40
					}
				}
				rep, ok := confirmAndMinimise(c, h, budget)
				if ok {
					results[ki].rep, results[ki].ok = rep, true
					return
				}
			}
			results[ki].note = fmt.Sprintf("candidate %s did not reproduce in confirmation runs (indexes %v)", key, indexes(cands))
		}(ki, key)
	}
	jwg.Wait()
	for ki, key := range keys {
		r := results[ki]
		if !r.ok {
			unrepro++
			notes = append(notes, r.note)
			continue
		}
		rep := r.rep
		isKnown := false
		for _, f := range findings {
			if f.sig == rep.Sig {
				isKnown = true
				matched[f.sig] = true
			}
		}
		if isKnown {
			continue
		}
		name := fmt.Sprintf("%s-%d-%d-%s.json", prop, int64(seed), rep.Scenario.Index, sanitize(rep.Sig))
		path := filepath.Join(root, "replays", name)
		b, _ := json.MarshalIndent(rep, "", " ")
		os.WriteFile(path, b, 0o644)
		if *propose {
			os.MkdirAll(filepath.Join(root, "findings"), 0o755)
			fname := fmt.Sprintf("%s-%s-%08x.json", prop, sanitize(rep.Sig), fnv32(rep.Sig))
			os.WriteFile(filepath.Join(root, "findings", fname), b, 0o644)
			fmt.Printf("PROPOSE finding: property=%s sig=%s replay=findings/%s %s\n", prop, rep.Sig, fname, strings.ReplaceAll(firstLines(rep.Msg, 1), "\n", " "))
		}
		violations = append(violations, fmt.Sprintf("VIOLATION property=%s replay=%s", prop, path))
		fmt.Printf("  %s: %s [%s] x%d\n    %s\n", rep.Class, rep.Oracle, rep.Sig, a.violCount[key], strings.ReplaceAll(firstLines(rep.Msg, 12), "\n", "\n    "))
	}

	// known findings: print each, re-execute its stored replay
	for _, f := range findings {
		fmt.Printf("KNOWN-FINDING: property=%s %s [sig=%s]\n", prop, f.text, f.sig)
		if f.replay != "" {
			path := filepath.Join(root, f.replay)
			var rep wire.Replay
			if b, err := os.ReadFile(path); err == nil && json.Unmarshal(b, &rep) == nil && rep.Scenario != nil {
				res, end := execOne(rep.Scenario, cfg.hang*3, false)
				if res == nil && !end.ok && end.inFlight >= 0 {
					res = crashResult(prop, rep.Scenario.Index, end)
				}
				if res == nil || res.Verdict != "violation" || res.Sig != f.sig {
					notes = append(notes, fmt.Sprintf("known finding sig=%s no longer reproduces from %s", f.sig, f.replay))
				} else {
					matched[f.sig] = true
				}
			} else {
				notes = append(notes, fmt.Sprintf("known finding sig=%s: replay file %s unreadable", f.sig, f.replay))
			}
		}
	}
	for _, nt := range notes {
		fmt.Println("NOTE:", nt)
	}
	for _, e := range a.errors {
		fmt.Println("ERROR:", e)
	}
	for _, v := range violations {
		fmt.Println(v)
	}

	// ---- evidence
	wall := time.Since(t0).Seconds()
	writeEvidence(prop, *tier, seed, a, wall, genWall.Seconds(), len(violations), unrepro, matched, findings, truncated, n)

	if infra || len(a.errors) > 0 || a.evals == 0 {
		fmt.Println("verifsim: infrastructure trouble, exit 2")
		return 2
	}
	if len(violations) > 0 {
		return 1
	}
	fmt.Printf("verifsim: property %s held on everything explored (%d known finding(s) matched)\n", prop, len(matched))
	return 0
}

func indexes(rs []*wire.Result) []int {
	var out []int
	for _, r := range rs {
		out = append(out, r.Index)
	}
	return out
}

func sanitize(s string) string {
	var sb strings.Builder
	for _, c := range s {
		if (c >= 'a' && c <= 'z') || (c >= 'A' && c <= 'Z') || (c >= '0' && c <= '9') || c == '-' || c == '.' {
			sb.WriteRune(c)
		} else {
			sb.WriteByte('_')
		}
	}
	out := sb.String()
	if len(out) > 60 {
		out = out[:60]
	}
	return out
}

func queryBudget(prop, tier string) (int, error) {
	w, err := startWorker()
	if err != nil {
		return 0, err
	}
	defer w.stop()
	n := 0
	end := w.runCmd(wire.Cmd{Op: "budget", Prop: prop, Tier: tier}, 60*time.Second, func(r *wire.Result) { n = r.Steps })
	if !end.ok {
		return 0, fmt.Errorf("%s %s", end.err, firstLines(end.crash, 10))
	}
	if n == 0 {
		return 0, fmt.Errorf("unknown property %s", prop)
	}
	return n, nil
}

func fetchScenario(prop, tier string, seed uint64, idx int) (*wire.Scenario, error) {
	w, err := startWorker()
	if err != nil {
		return nil, err
	}
	defer w.stop()
	var sc *wire.Scenario
	end := w.runCmd(wire.Cmd{Op: "scenario", Prop: prop, Tier: tier, Seed: seed, From: idx}, 60*time.Second, func(r *wire.Result) { sc = r.Scenario })
	if !end.ok || sc == nil {
		return nil, fmt.Errorf("%s", end.err)
	}
	return sc, nil
}

// ---------------------------------------------------------------- confirm / minimise

func same(a *wire.Result, class, oracle, sig string) bool {
	return a != nil && a.Verdict == "violation" && a.Class == class && a.Oracle == oracle && a.Sig == sig
}

// runFresh executes a scenario in a fresh worker and maps crashes to results.
func runFresh(w **worker, sc *wire.Scenario, hang time.Duration) *wire.Result {
	if *w == nil || (*w).dead {
		nw, err := startWorker()
		if err != nil {
			return nil
		}
		*w = nw
	}
	res, end := execOn(*w, sc, hang, false)
	if !end.ok {
		if end.inFlight >= 0 || end.hung {
			return crashResult(sc.Prop, sc.Index, end)
		}
		return nil
	}
	return res
}

func confirmAndMinimise(c *wire.Result, hang time.Duration, budget int) (*wire.Replay, bool) {
	sc := c.Scenario
	if sc == nil {
		return nil, false
	}
	class, oracle, sig := c.Class, c.Oracle, c.Sig
	// confirmation: twice, each in a fresh process
	for i := 0; i < 2; i++ {
		var w *worker
		r := runFresh(&w, sc, hang)
		w.stop()
		if !same(r, class, oracle, sig) {
			return nil, false
		}
	}
	best := sc
	msg := c.Msg
	var w *worker
	defer func() { w.stop() }()
	attempts := 0
	try := func(cand *wire.Scenario) bool {
		if attempts >= budget {
			return false
		}
		attempts++
		r := runFresh(&w, cand, hang)
		if same(r, class, oracle, sig) {
			best = cand
			msg = r.Msg
			return true
		}
		return false
	}
	if budget > 0 {
		minimise(&best, try)
		// the minimised scenario must reproduce three times in fresh processes
		okAll := true
		for i := 0; i < 3; i++ {
			var fw *worker
			r := runFresh(&fw, best, hang)
			fw.stop()
			if !same(r, class, oracle, sig) {
				okAll = false
			}
		}
		if !okAll {
			best = sc
			msg = c.Msg
		}
	}
	return &wire.Replay{Property: sc.Prop, Class: class, Oracle: oracle, Sig: sig, Msg: msg, Minimised: budget > 0 && best != sc, Scenario: best}, true
}

func clone(sc *wire.Scenario) *wire.Scenario {
	b, _ := json.Marshal(sc)
	var c wire.Scenario
	json.Unmarshal(b, &c)
	return &c
}

func minimise(best **wire.Scenario, try func(*wire.Scenario) bool) {
	// 1. faults and disturbances, one by one
	for i := len((*best).Plan.Faults) - 1; i >= 0; i-- {
		c := clone(*best)
		c.Plan.Faults = append(c.Plan.Faults[:i], c.Plan.Faults[i+1:]...)
		try(c)
	}
	for i := len((*best).Plan.Disturb) - 1; i >= 0; i-- {
		c := clone(*best)
		c.Plan.Disturb = append(c.Plan.Disturb[:i], c.Plan.Disturb[i+1:]...)
		try(c)
	}
	// extra plans of multi-run properties
	for len((*best).Plans) > 1 {
		shrunk := false
		for i := range (*best).Plans {
			c := clone(*best)
			c.Plans = []wire.Plan{(*best).Plans[i]}
			if try(c) {
				shrunk = true
				break
			}
		}
		if !shrunk {
			break
		}
	}
	// 2. simpler schedule
	if (*best).Plan.Policy != "canonical" {
		c := clone(*best)
		c.Plan.Policy, c.Plan.Class, c.Plan.Sites = "canonical", "S0", nil
		if !try(c) {
			c = clone(*best)
			c.Plan.Sites = nil
			try(c)
			if (*best).Plan.Class == "S2" || (*best).Plan.Class == "S3" {
				c = clone(*best)
				c.Plan.Class = "S1"
				try(c)
			}
		}
	}
	// 3. script tokens: chunks of halving size, then single tokens
	for size := len((*best).Script) / 2; size >= 1; size /= 2 {
		for i := 0; i+size <= len((*best).Script); {
			c := clone(*best)
			c.Script = append(c.Script[:i], c.Script[i+size:]...)
			if !try(c) {
				i += size
			}
		}
	}
	// 4. environment towards defaults
	envSteps := []func(e *wire.Env) bool{
		func(e *wire.Env) bool {
			ch := e.W != 80 || e.H != 24 || e.StartRow != 0
			e.W, e.H, e.StartRow = 80, 24, 0
			return ch
		},
		func(e *wire.Env) bool { ch := e.Prompt != "> "; e.Prompt = "> "; return ch },
		func(e *wire.Env) bool { ch := e.RPrompt != ""; e.RPrompt = ""; return ch },
		func(e *wire.Env) bool { ch := len(e.History) > 0; e.History = nil; return ch },
		func(e *wire.Env) bool { ch := e.Comp != nil; e.Comp = nil; return ch },
		func(e *wire.Env) bool { ch := e.Multiline != ""; e.Multiline = ""; return ch },
		func(e *wire.Env) bool { ch := e.Termios != nil; e.Termios = nil; return ch },
	}
	for _, st := range envSteps {
		c := clone(*best)
		if st(&c.Env) {
			try(c)
		}
	}
	for i := len((*best).Env.Inputrc) - 1; i >= 0; i-- {
		c := clone(*best)
		c.Env.Inputrc = append(c.Env.Inputrc[:i], c.Env.Inputrc[i+1:]...)
		try(c)
	}
	for hi := range (*best).Env.History {
		for i := len((*best).Env.History[hi].Entries) - 1; i >= 0; i-- {
			c := clone(*best)
			e := c.Env.History[hi].Entries
			c.Env.History[hi].Entries = append(e[:i], e[i+1:]...)
			try(c)
		}
	}
	if (*best).Env.Comp != nil {
		for i := len((*best).Env.Comp.Cands) - 1; i >= 0; i-- {
			c := clone(*best)
			cs := c.Env.Comp.Cands
			c.Env.Comp.Cands = append(cs[:i], cs[i+1:]...)
			try(c)
		}
	}
	// harness binds not used by the script
	if len((*best).Env.Binds) > 0 {
		c := clone(*best)
		var keep []wire.BindSpec
		for _, b := range c.Env.Binds {
			used := false
			for _, t := range c.Script {
				if strings.Contains(string(t.B), string(b.Seq)) {
					used = true
				}
			}
			if used {
				keep = append(keep, b)
			}
		}
		c.Env.Binds = keep
		try(c)
	}
	// 5. family payload: generic JSON shrinking
	if len((*best).X) > 0 {
		shrinkX(best, try)
	}
	// single tokens once more (environment changes may have enabled it)
	for i := 0; i < len((*best).Script); {
		c := clone(*best)
		c.Script = append(c.Script[:i], c.Script[i+1:]...)
		if !try(c) {
			i++
		}
	}
}

// shrinkX removes array elements and halves strings anywhere in the payload.
func shrinkX(best **wire.Scenario, try func(*wire.Scenario) bool) {
	for pass := 0; pass < 3; pass++ {
		var v any
		if json.Unmarshal((*best).X, &v) != nil {
			return
		}
		paths := collectPaths(v, nil)
		changed := false
		for _, p := range paths {
			var cur any
			json.Unmarshal((*best).X, &cur)
			nv, ok := shrinkAt(cur, p)
			if !ok {
				continue
			}
			b, err := json.Marshal(nv)
			if err != nil {
				continue
			}
			c := clone(*best)
			c.X = b
			if try(c) {
				changed = true
			}
		}
		if !changed {
			return
		}
	}
}

type pathElem struct {
	key string
	idx int
	op  string // del | half
}

func collectPaths(v any, prefix []pathElem) [][]pathElem {
	var out [][]pathElem
	switch t := v.(type) {
	case map[string]any:
		ks := make([]string, 0, len(t))
		for k := range t {
			ks = append(ks, k)
		}
		sort.Strings(ks)
		for _, k := range ks {
			out = append(out, collectPaths(t[k], append(append([]pathElem(nil), prefix...), pathElem{key: k}))...)
		}
	case []any:
		for i := len(t) - 1; i >= 0; i-- {
			out = append(out, append(append([]pathElem(nil), prefix...), pathElem{idx: i, op: "del"}))
		}
		for i := range t {
			out = append(out, collectPaths(t[i], append(append([]pathElem(nil), prefix...), pathElem{idx: i}))...)
		}
	case string:
		if len(t) > 1 {
			out = append(out, append(append([]pathElem(nil), prefix...), pathElem{op: "half"}))
		}
	}
	return out
}

func shrinkAt(v any, p []pathElem) (any, bool) {
	if len(p) == 0 {
		return v, false
	}
	e := p[0]
	switch t := v.(type) {
	case map[string]any:
		if e.key == "" {
			return v, false
		}
		child, ok := t[e.key]
		if !ok {
			return v, false
		}
		if len(p) == 2 && p[1].op == "half" {
			if s, ok := child.(string); ok && len(s) > 1 {
				t[e.key] = s[:len(s)/2]
				return t, true
			}
			return v, false
		}
		nc, ok := shrinkAt(child, p[1:])
		if !ok {
			return v, false
		}
		t[e.key] = nc
		return t, true
	case []any:
		if e.idx >= len(t) {
			return v, false
		}
		if e.op == "del" && len(p) == 1 {
			return append(t[:e.idx:e.idx], t[e.idx+1:]...), true
		}
		if len(p) == 2 && p[1].op == "half" {
			if s, ok := t[e.idx].(string); ok && len(s) > 1 {
				t[e.idx] = s[:len(s)/2]
				return t, true
			}
			return v, false
		}
		if len(p) == 1 {
			return v, false
		}
		nc, ok := shrinkAt(t[e.idx], p[1:])
		if !ok {
			return v, false
		}
		t[e.idx] = nc
		return t, true
	}
	return v, false
}

// ---------------------------------------------------------------- replay / one

func cmdReplay(args []string) int {
	if len(args) < 1 {
		usage()
	}
	b, err := os.ReadFile(args[0])
	if err != nil {
		fmt.Fprintln(os.Stderr, err)
		return 2
	}
	var rep wire.Replay
	if err := json.Unmarshal(b, &rep); err != nil || rep.Scenario == nil {
		fmt.Fprintln(os.Stderr, "not a replay file:", err)
		return 2
	}
	if err := buildWorker(); err != nil {
		fmt.Fprintln(os.Stderr, err)
		return 2
	}
	trace := len(args) > 1 && args[1] == "--trace"
	res, end := execOne(rep.Scenario, 30*time.Second, trace)
	if res == nil && (end.inFlight >= 0 || end.hung) {
		res = crashResult(rep.Property, rep.Scenario.Index, end)
	}
	if res == nil {
		fmt.Fprintln(os.Stderr, "worker failed:", end.err, end.crash)
		return 2
	}
	fmt.Printf("replay: verdict=%s class=%s oracle=%s sig=%s\n%s\n", res.Verdict, res.Class, res.Oracle, res.Sig, res.Msg)
	if trace {
		cb, _ := json.Marshal(res.Counters)
		fmt.Println("counters:", string(cb))
	}
	if trace && res.Sample != nil {
		b, _ := json.MarshalIndent(res.Sample, "", " ")
		fmt.Println(string(b))
	}
	if res.Verdict == "violation" {
		if res.Class == rep.Class && res.Sig == rep.Sig {
			fmt.Printf("VIOLATION property=%s replay=%s\n", rep.Property, args[0])
			return 1
		}
		fmt.Printf("NOTE: a different violation than recorded (%s %s)\n", rep.Class, rep.Sig)
		fmt.Printf("VIOLATION property=%s replay=%s\n", rep.Property, args[0])
		return 1
	}
	fmt.Println("replay: the recorded violation does not reproduce on this tree")
	return 0
}

func cmdOne(args []string) int {
	if len(args) < 2 {
		usage()
	}
	prop := args[0]
	idx, _ := strconv.Atoi(args[1])
	fs := flag.NewFlagSet("one", flag.ExitOnError)
	seedFlag := fs.Uint64("seed", 20260926, "seed")
	tier := fs.String("tier", "quick", "tier")
	trace := fs.Bool("trace", false, "trace")
	fs.Parse(args[2:])
	if err := buildWorker(); err != nil {
		fmt.Fprintln(os.Stderr, err)
		return 2
	}
	sc, err := fetchScenario(prop, *tier, *seedFlag, idx)
	if err != nil {
		fmt.Fprintln(os.Stderr, err)
		return 2
	}
	res, end := execOne(sc, 30*time.Second, *trace)
	if res == nil {
		res = crashResult(prop, idx, end)
		res.Scenario = sc
	}
	b, _ := json.MarshalIndent(res, "", " ")
	fmt.Println(string(b))
	return 0
}

// ---------------------------------------------------------------- selftest (determinism)

func cmdSelftest(args []string) int {
	fs := flag.NewFlagSet("selftest", flag.ExitOnError)
	propsFlag := fs.String("props", "C01", "comma separated properties")
	n := fs.Int("n", 200, "scenarios per property")
	procs := fs.Int("procs", 30, "processes")
	seed := fs.Uint64("seed", 777, "seed")
	fs.Parse(args)
	if err := buildWorker(); err != nil {
		fmt.Fprintln(os.Stderr, err)
		return 2
	}
	bad := 0
	for _, prop := range strings.Split(*propsFlag, ",") {
		ref := map[int]string{}
		var mu sync.Mutex
		var wg sync.WaitGroup
		diffs := 0
		sem := make(chan struct{}, 16)
		for pi := 0; pi < *procs; pi++ {
			wg.Add(1)
			sem <- struct{}{}
			go func(pi int) {
				defer wg.Done()
				defer func() { <-sem }()
				os.Setenv("VERIF_WORKER_GOMAXPROCS", []string{"1", "4", "16"}[pi%3])
				w, err := startWorker()
				if err != nil {
					return
				}
				defer w.stop()
				for rep := 0; rep < 2; rep++ {
					from := 0
					for from < *n {
						last := from - 1
						end := w.runCmd(wire.Cmd{Op: "gen", Prop: prop, Tier: "quick", Seed: *seed, From: from, To: *n}, 120*time.Second, func(r *wire.Result) {
							last = r.Index
							h := r.TraceHash + "/" + r.Verdict + "/" + r.Sig
							if os.Getenv("VERIF_SELFTEST_DUMP") != "" {
								fmt.Printf("HASH proc=%d rep=%d index=%d %s\n", pi, rep, r.Index, h)
							}
							mu.Lock()
							if prev, ok := ref[r.Index]; ok && prev != h {
								diffs++
								if diffs < 10 {
									fmt.Printf("DIFF property=%s index=%d: %s vs %s\n", prop, r.Index, prev, h)
								}
							} else {
								ref[r.Index] = h
							}
							mu.Unlock()
						})
						if end.ok && !end.recycle {
							break
						}
						if end.inFlight >= 0 {
							from = end.inFlight + 1
						} else {
							from = last + 1
						}
						w, _ = startWorker()
						if w == nil {
							return
						}
					}
				}
			}(pi)
		}
		wg.Wait()
		fmt.Printf("selftest %s: %d scenarios x %d processes x 2 runs at GOMAXPROCS 1/4/16: %d differences\n", prop, len(ref), *procs, diffs)
		bad += diffs
	}
	if bad > 0 {
		return 2
	}
	return 0
}

// ---------------------------------------------------------------- evidence

func writeEvidence(prop, tier string, seed uint64, a *agg, wall, genWall float64, violations, unrepro int, matched map[string]bool, findings []finding, truncated bool, planned int) {
	if repo != "/repo" {
		return // a run against another tree (a scratch copy with a seeded change, a snapshot) is not evidence
	}
	meta := loadMeta(prop)
	faults := map[string]int{}
	disturb := map[string]int{}
	reach := map[string]int{}
	yields := map[string]int{}
	ends := map[string]int{}
	other := map[string]int{}
	for k, v := range a.counters {
		switch {
		case strings.HasPrefix(k, "fault:"):
			faults[strings.TrimPrefix(k, "fault:")] = v
		case strings.HasPrefix(k, "disturb:"):
			disturb[strings.TrimPrefix(k, "disturb:")] = v
		case strings.HasPrefix(k, "reach:"):
			reach[strings.TrimPrefix(k, "reach:")] = v
		case strings.HasPrefix(k, "yield:"):
			yields[strings.TrimPrefix(k, "yield:")] = v
		case strings.HasPrefix(k, "end:"):
			ends[strings.TrimPrefix(k, "end:")] = v
		case strings.HasPrefix(k, "site:"), k == "wall_us":
		default:
			other[k] = v
		}
	}
	distinct := len(a.sigs)
	samples := a.samples
	if samples == nil {
		samples = []any{}
	}
	var kf []string
	for _, f := range findings {
		kf = append(kf, fmt.Sprintf("%s matched_this_run=%v", f.sig, matched[f.sig]))
	}
	perHour := 0.0
	if genWall > 0 {
		perHour = float64(a.sessions) / genWall * 3600
	}
	cov := map[string]any{
		"evaluations":              a.evals,
		"distinct_nontrivial":      distinct,
		"rule":                     meta.Rule,
		"samples":                  samples,
		"sessions":                 a.sessions,
		"nontrivial_evaluations":   a.nontriv,
		"scheduler_steps":          a.steps,
		"simulated_time":           fmt.Sprintf("%d scheduler steps (the library has no timers; the bubble clock never needs to advance)", a.steps),
		"sessions_per_hour":        int(perHour),
		"seeds":                    []int64{int64(seed)},
		"faults_fired":             faults,
		"disturbances_run":         disturb,
		"reach_probes":             reach,
		"yield_sites_parked":       yields,
		"session_ends":             ends,
		"counters":                 other,
		"distinct_interleavings":   len(a.ils),
		"distinct_abstract_states": len(a.states),
		"components":               meta.Components,
		"unreproduced_candidates":  unrepro,
		"known_findings":           kf,
		"worker_restarts":          a.restarts,
		"watchdog_kills":           a.watchdog,
		"planned_evaluations":      planned,
		"truncated_by_wall_cap":    truncated,
		"repo":                     repoState(),
		"toolchain":                goBin,
		"exhaustive":               false,
	}
	ev := map[string]any{
		"property_id": prop,
		"tier":        tier,
		"seed":        int64(seed),
		"level":       meta.Level,
		"coverage":    cov,
		"assumptions": meta.Assumptions,
		"wall_s":      wall,
		"violations":  violations,
	}
	os.MkdirAll(filepath.Join(root, "evidence"), 0o755)
	b, _ := json.MarshalIndent(ev, "", " ")
	os.WriteFile(filepath.Join(root, "evidence", prop+".json"), b, 0o644)
	if tier == "thorough" {
		// the quick tier rewrites evidence/<id>.json on every change: keep the last deep run beside it
		os.MkdirAll(filepath.Join(root, "evidence", "thorough"), 0o755)
		os.WriteFile(filepath.Join(root, "evidence", "thorough", prop+".json"), b, 0o644)
	}
}

type propMeta struct {
	Level       string         `json:"level"`
	Rule        string         `json:"rule"`
	Assumptions []string       `json:"assumptions"`
	Components  map[string]any `json:"components"`
}

func loadMeta(prop string) propMeta {
	m := propMeta{Level: "exploration", Rule: "seeded scenarios; distinct = distinct behaviour signatures", Assumptions: []string{}}
	b, err := os.ReadFile(filepath.Join(root, "sim", "meta.json"))
	if err != nil {
		return m
	}
	var all map[string]propMeta
	if json.Unmarshal(b, &all) != nil {
		return m
	}
	if c, ok := all["common"]; ok {
		m.Assumptions = append(m.Assumptions, c.Assumptions...)
		m.Components = c.Components
	}
	if p, ok := all[prop]; ok {
		if p.Level != "" {
			m.Level = p.Level
		}
		if p.Rule != "" {
			m.Rule = p.Rule
		}
		m.Assumptions = append(m.Assumptions, p.Assumptions...)
		if p.Components != nil {
			m.Components = p.Components
		}
	}
	return m
}

func repoState() string {
	out, err := exec.Command("git", "-C", repo, "describe", "--always", "--dirty").Output()
	if err != nil {
		return "unknown"
	}
	return strings.TrimSpace(string(out))
}

func fnv32(s string) uint32 {
	h := uint32(2166136261)
	for i := 0; i < len(s); i++ {
		h = (h ^ uint32(s[i])) * 16777619
	}
	return h
}

// cmdSeq (debug): run scenarios [from,last) in one worker, then scenario `last` with tracing, in the same process.
func cmdSeq(args []string) int {
	prop := args[0]
	from, _ := strconv.Atoi(args[1])
	last, _ := strconv.Atoi(args[2])
	seed := uint64(777)
	if len(args) > 3 {
		seed, _ = strconv.ParseUint(args[3], 10, 64)
	}
	if err := buildWorker(); err != nil {
		fmt.Fprintln(os.Stderr, err)
		return 2
	}
	w, err := startWorker()
	if err != nil {
		return 2
	}
	defer w.stop()
	if last > from {
		w.runCmd(wire.Cmd{Op: "gen", Prop: prop, Tier: "quick", Seed: seed, From: from, To: last}, 300*time.Second, func(r *wire.Result) {})
	}
	var sc *wire.Scenario
	w.runCmd(wire.Cmd{Op: "scenario", Prop: prop, Tier: "quick", Seed: seed, From: last}, 60*time.Second, func(r *wire.Result) { sc = r.Scenario })
	res, _ := execOn(w, sc, 60*time.Second, true)
	b, _ := json.MarshalIndent(res, "", " ")
	fmt.Println(string(b))
	return 0
}
