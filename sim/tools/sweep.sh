#!/bin/bash
# usage: sweep.sh <prop> <seed>...   -- developer aid: run the quick check of a property under several VERIF_SEED values
# and print the violations that known-findings.txt does not list (with --propose: candidate lines, never written by itself)
P=$1; shift
mkdir -p /tmp/ms
for s in "$@"; do
  (cd /verif && VERIF_SEED=$s timeout 1500 sim/bin/verifsim check $P --tier ${TIER:-quick} --propose > /tmp/ms/$P.$s.out 2>&1
   echo "$P seed=$s rc=$? viol=$(grep -c '^VIOLATION' /tmp/ms/$P.$s.out) notes=$(grep -c '^NOTE' /tmp/ms/$P.$s.out)")
done
cat $(for s in "$@"; do echo /tmp/ms/$P.$s.out; done) | grep "^PROPOSE" | sed 's/^PROPOSE //' | sort -t' ' -k3,3 -u
