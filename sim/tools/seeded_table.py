#!/usr/bin/env python3
"""Rewrites the table of seeded changes in DESIGN.md (between the seeded-table markers) from seeded/*/meta.json."""
import json, glob, os, re
rows = []
for d in sorted(glob.glob('/verif/seeded/C*/')):
    ID = os.path.basename(d.rstrip('/'))
    p = d + 'meta.json'
    if not os.path.exists(p):
        continue
    m = json.load(open(p))
    where = m.get('changed') or ''
    if not where:
        pd = open(d + 'patch.diff').read()
        f = re.findall(r'^\+\+\+ b/(\S+)', pd, re.M)
        fn = re.findall(r'^@@.*@@ func (?:\([^)]*\) )?(\w+)', pd, re.M)
        where = (f[0] if f else '') + (' ' + fn[0] if fn else '')
    parts = []
    for prop in m.get('checks', [m['property']]):
        c = m.get('caught_by', {}).get(prop)
        if not c or not isinstance(c, dict):
            continue
        if c.get('exit_code') == 1 and c.get('signatures'):
            s = c['signatures']
            more = f" (+{len(s)-1})" if len(s) > 1 else ''
            parts.append(f"{prop}: {s[0]}{more}")
        else:
            parts.append(f"{prop}: —")
    dagger = ' †' if m.get('missed_at_first_run') else ''
    caught = m.get('table_note') or ', '.join(parts)
    rows.append("| %s%s | `%s` | %s |" % (ID, dagger, where, caught))
t = open('/verif/DESIGN.md').read()
b, e = '<!-- seeded-table-begin -->', '<!-- seeded-table-end -->'
table = b + '\n| change | where | caught by (first signature) |\n|---|---|---|\n' + '\n'.join(rows) + '\n' + e
if b in t:
    t = t[:t.index(b)] + table + t[t.index(e) + len(e):]
    open('/verif/DESIGN.md', 'w').write(t)
print(len(rows), 'rows')
