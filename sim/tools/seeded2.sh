#!/bin/bash
# usage: seeded2.sh <ID> [props...]  -- second wave: import a seeded change from /tmp/mut2/out/<ID> into /verif/seeded/<ID>b, verify its
# demonstration both ways in the author's scratch worktree, then run the quick check(s) against /repo with the change applied (and undo it).
ID=$1; shift
PROPS=${@:-$ID}
SRC=/tmp/mut2/out/$ID
W=/tmp/mut2/$ID
DST=/verif/seeded/${ID}b
mkdir -p $DST/demo
cp $SRC/patch.diff $SRC/meta.md $DST/ 2>/dev/null
(cd $SRC && find . -name 'zz_seeded*' | while read f; do mkdir -p $DST/demo/$(dirname $f); cp $f $DST/demo/$f; done)
cd /repo || exit 2
git apply --check $DST/patch.diff 2>/tmp/apply.err || { echo "PATCH DOES NOT APPLY TO /repo HEAD: $(head -2 /tmp/apply.err)"; }
if [ -d $W ]; then
  ( cd $W
    demo=$(git status --porcelain | grep '^??' | awk '{print $2}' | grep zz_seeded | head -5)
    echo "demo files: $demo" > $DST/verify.log
    git diff > /tmp/mut2/$ID.cur.patch
    for d in $demo; do pkg=./$(dirname $d)
      echo "== WITH change: go test $pkg" >> $DST/verify.log
      (timeout 600 go test -mod=mod -vet=off -count=1 -tags verif -run 'Seeded' $pkg >> $DST/verify.log 2>&1; echo "exit=$?" >> $DST/verify.log)
      git checkout -q -- .
      echo "== WITHOUT change: go test $pkg" >> $DST/verify.log
      (timeout 600 go test -mod=mod -vet=off -count=1 -tags verif -run 'Seeded' $pkg >> $DST/verify.log 2>&1; echo "exit=$?" >> $DST/verify.log)
      git apply /tmp/mut2/$ID.cur.patch
    done )
  grep -E "^== |^exit=|^(ok|FAIL)" $DST/verify.log | head -12
fi
git apply --check $DST/patch.diff 2>/dev/null || exit 1
git apply $DST/patch.diff
go build ./... || { echo "DOES NOT BUILD"; git checkout -- .; exit 2; }
if go test -mod=mod -vet=off -count=1 ./... > /tmp/seeded_suite.log 2>&1; then echo "pinned suite: pass"; else echo "pinned suite: FAIL"; fi
for p in $PROPS; do
  s=$(date +%s)
  (cd /verif && timeout 1500 sim/bin/verifsim check $p --tier quick > $DST/check_$p.log 2>&1); rc=$?
  echo "CHECK $p rc=$rc $(( $(date +%s)-s ))s violations=$(grep -c '^VIOLATION' $DST/check_$p.log)"
  grep -A2 "^  [A-Z]" $DST/check_$p.log | grep -v "^--" | cut -c1-300 | head -9
done
git checkout -- .
git status --short | grep -v '^??' | head -3
