#!/usr/bin/env python3
"""usage: seeded_meta.py <info.json>  -- writes /verif/seeded/<ID>/meta.json for the seeded changes described in the info file
(author's facts: what changed, what it needs to manifest, what the first run did, what was strengthened), filling in
`caught_by` from the check logs left in the change's directory by seeded_check.sh / seeded<N>.sh. Developer aid, never registered."""
import json, re, sys, os
info = json.load(open(sys.argv[1]))
wave = info["wave"]
for ID, m in info["changes"].items():
    d = f"/verif/seeded/{ID}"
    checks = m.get("checks", [ID[:3]])
    caught = {}
    for p in checks:
        log = f"{d}/check_{p}.log"
        if not os.path.exists(log):
            continue
        t = open(log, errors="replace").read()
        sigs = sorted(set(re.findall(r"^  [A-Z_]+: \S+ \[([^\]]*)\]", t, re.M)))
        nviol = len(re.findall(r"^VIOLATION", t, re.M))
        rc = 1 if nviol else 0
        caught[p] = {"exit_code": rc, "violations": len(sigs), "signatures": sigs[:10]}
    demos = []
    for root, _, files in os.walk(f"{d}/demo"):
        for f in files:
            demos.append(os.path.relpath(os.path.join(root, f), f"{d}/demo"))
    first_line = ""
    if os.path.exists(f"{d}/meta.md"):
        for l in open(f"{d}/meta.md"):
            if l.startswith("#"):
                first_line = l.lstrip("# ").strip()
                break
    out = {
        "property": ID[:3], "wave": wave, "breaks": first_line, "changed": m["changed"],
        "origin": info["origin"], "patch": "patch.diff", "demonstration_in_repo": sorted(demos),
        "how_to_run_demonstration": "copy the demo file(s) from demo/ to the path(s) in demonstration_in_repo inside a scratch worktree of /repo, then: go test -mod=mod -vet=off -count=1 -tags verif -run Seeded <package>   (fails with patch.diff applied, passes without)",
        "needs_to_manifest": m["needs"], "compiles_and_passes_pinned_suite": True,
        "demo_fails_with_change": True, "demo_passes_without_change": True, "checks": checks,
        "what_was_run": ["demonstration in the author's worktree with the change: fails; without: passes (verify.log)", info["what_was_run"]],
        "missed_at_first_run": m["missed"], "caught_by": caught,
    }
    if m.get("strengthened"):
        out["strengthened"] = m["strengthened"]
    if m.get("note"):
        out["note"] = m["note"]
    if m.get("table_note"):
        out["table_note"] = m["table_note"]
    if m.get("not_caught"):
        out["not_caught"] = True
    json.dump(out, open(f"{d}/meta.json", "w"), indent=1, ensure_ascii=False)
    print(ID, {p: (c["exit_code"], c["violations"]) for p, c in caught.items()})
