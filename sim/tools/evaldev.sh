#!/bin/bash
# usage: evaldev.sh <seeded-ID> [props...]  -- run the DEVELOPMENT binary (sim/bin/verifsim.dev) against a scratch worktree of /repo with
# seeded/<ID>/patch.diff applied (VERIF_REPO), so that /repo and the registered binary stay untouched. Developer aid; never registered.
ID=$1; shift
PROPS=${@:-${ID:0:3}}
E=/tmp/evaldev-$ID-$$
git -C /repo worktree add -q --detach $E HEAD || exit 2
( cd $E && git apply /verif/seeded/$ID/patch.diff ) || { echo "PATCH DOES NOT APPLY"; git -C /repo worktree remove --force $E; exit 2; }
for p in $PROPS; do
  s=$(date +%s)
  (cd /verif && VERIF_SEED=${SEED:-} VERIF_REPO=$E timeout 1500 sim/bin/verifsim.dev check $p --tier ${TIER:-quick} --workers ${WORKERS:-8} > /tmp/evaldev-$ID-$p.log 2>&1); rc=$?
  echo "$ID: check=$p rc=$rc $(( $(date +%s)-s ))s violations=$(grep -a -c '^VIOLATION' /tmp/evaldev-$ID-$p.log)"
  grep -a -A1 "^  [A-Z_]*: " /tmp/evaldev-$ID-$p.log | grep -v "^--" | cut -c1-400 | head -${LINES_:-8}
done
git -C /repo worktree remove --force $E
