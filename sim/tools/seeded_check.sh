#!/bin/bash
# usage: seeded_check.sh <ID>...  -- for each kept seeded change: apply seeded/<ID>/patch.diff to /repo, run the pinned suite and the
# quick check of the property, undo the change straight away. Prints one line per change. (developer aid; never registered)
for ID in "$@"; do
  D=/verif/seeded/$ID
  P=$(python3 -c "import json;m=json.load(open('$D/meta.json'));print(' '.join(m.get('checks',[m['property']])))" 2>/dev/null || echo ${ID:0:3})
  cd /repo || exit 2
  if ! git apply --check $D/patch.diff 2>/dev/null; then echo "$ID: PATCH DOES NOT APPLY"; continue; fi
  git apply $D/patch.diff
  if go build ./... 2>/dev/null && go test -mod=mod -vet=off -count=1 ./... > /tmp/seeded_suite.log 2>&1; then suite=pass; else suite=FAIL; fi
  for p in $P; do
    s=$(date +%s)
    (cd /verif && VERIF_SEED=${SEED:-} timeout 1500 sim/bin/verifsim check $p --tier quick > $D/check_$p.log 2>&1); rc=$?
    echo "$ID: check=$p suite=$suite check_rc=$rc $(( $(date +%s)-s ))s sigs=$(grep -a -o '^  [A-Z_]*: [^ ]* \[[^]]*\]' $D/check_$p.log | sed 's/.*\[\(.*\)\]/\1/' | sort -u | head -4 | tr '\n' ' ')"
  done
  git checkout -- . ; git status --short | grep -v '^??' | head -3
done
