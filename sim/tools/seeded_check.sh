#!/bin/bash
# usage: seeded_check.sh <ID>...  -- for each kept seeded change: apply seeded/<ID>/patch.diff to /repo, run the pinned suite and the
# quick check of the property, undo the change straight away. Prints one line per change. (developer aid; never registered)
for ID in "$@"; do
  D=/verif/seeded/$ID
  P=$(python3 -c "import json;print(json.load(open('$D/meta.json'))['property'])" 2>/dev/null || echo ${ID:0:3})
  cd /repo || exit 2
  if ! git apply --check $D/patch.diff 2>/dev/null; then echo "$ID: PATCH DOES NOT APPLY"; continue; fi
  git apply $D/patch.diff
  if go build ./... 2>/dev/null && go test -mod=mod -vet=off -count=1 ./... > /tmp/seeded_suite.log 2>&1; then suite=pass; else suite=FAIL; fi
  s=$(date +%s)
  (cd /verif && VERIF_SEED=${SEED:-} timeout 1500 sim/bin/verifsim check $P --tier quick > $D/check_$P.log 2>&1); rc=$?
  git checkout -- . ; git status --short | grep -v '^??' | head -3
  echo "$ID: property=$P suite=$suite check_rc=$rc $(( $(date +%s)-s ))s sigs=$(grep -o '^  [A-Z_]*: [^ ]* \[[^]]*\]' $D/check_$P.log | sed 's/.*\[\(.*\)\]/\1/' | sort -u | head -4 | tr '\n' ' ')"
done
