#!/bin/bash
# usage: seeded.sh <ID> [props...]  -- import a seeded change from /tmp/mut/out/<ID>, verify its demonstration in a
# scratch worktree, then run the quick check(s) of the property against /repo with the change applied (and undo it).
ID=$1; shift
PROPS=${@:-$ID}
SRC=/tmp/mut/out/$ID
DST=/verif/seeded/$ID
mkdir -p $DST
cp -r $SRC/patch.diff $SRC/meta.md $DST/ 2>/dev/null
find $SRC -name 'zz_seeded*' -o -name '*.go' | while read f; do rel=${f#$SRC/}; mkdir -p $DST/demo/$(dirname $rel); cp $f $DST/demo/$rel; done
cd /repo || exit 2
git apply --check $DST/patch.diff || { echo "PATCH DOES NOT APPLY"; exit 2; }
# 1. demonstration, in a scratch worktree made from the agent's worktree layout
W=/tmp/mut/$ID
if [ -d $W ]; then
  ( cd $W; demo=$(git status --porcelain | grep '^??' | awk '{print $2}' | grep zz_seeded | head -5)
    echo "demo files: $demo" > $DST/verify.log
    for d in $demo; do pkg=./$(dirname $d); 
      echo "== WITH change: go test $pkg" >> $DST/verify.log
      (timeout 300 go test -mod=mod -vet=off -count=1 -tags verif -run 'Seeded' $pkg >> $DST/verify.log 2>&1; echo "exit=$?" >> $DST/verify.log)
      git diff > /tmp/mut/$ID.patch; git checkout -q -- .
      echo "== WITHOUT change: go test $pkg" >> $DST/verify.log
      (timeout 300 go test -mod=mod -vet=off -count=1 -tags verif -run 'Seeded' $pkg >> $DST/verify.log 2>&1; echo "exit=$?" >> $DST/verify.log)
      git apply /tmp/mut/$ID.patch
    done )
  grep -E "^== |^exit=|^(ok|FAIL|---)" $DST/verify.log | head -20
fi
# 2. our checks against /repo with the change
git apply $DST/patch.diff
go build ./... || { echo "DOES NOT BUILD"; git checkout -- .; exit 2; }
if go test -mod=mod -vet=off -count=1 ./... > /tmp/seeded_suite.log 2>&1; then echo "pinned suite: pass"; else echo "pinned suite: FAIL"; fi
for p in $PROPS; do
  s=$(date +%s)
  /verif/sim/bin/verifsim check $p --tier quick > $DST/check_$p.log 2>&1; rc=$?
  echo "CHECK $p rc=$rc $(( $(date +%s)-s ))s violations=$(grep -c '^VIOLATION' $DST/check_$p.log)"
  grep -A2 "^  [A-Z]" $DST/check_$p.log | grep -v "^--" | cut -c1-300 | head -12
done
git checkout -- .
git status --short | head -3
