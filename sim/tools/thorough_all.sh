#!/bin/bash
# usage: thorough_all.sh <outdir> [props...]  -- developer aid: the thorough tier of every property (or the given ones), one after the
# other, against /repo; one line per property in <outdir>/summary.txt. The evidence files are written by the checks themselves.
OUT=$1; shift
PROPS=${@:-C01 C02 C03 C04 C05 C06 C07 C08 C09 C10 C11 C12 C13 C14 C15 C16 C17 C18 C19 C20}
mkdir -p $OUT
for p in $PROPS; do
  s=$(date +%s)
  (cd /verif && sim/bin/verifsim check $p --tier thorough --propose > $OUT/$p.out 2>&1); rc=$?
  echo "$p rc=$rc $(( $(date +%s)-s ))s viol=$(grep -a -c '^VIOLATION' $OUT/$p.out) notes=$(grep -a -c '^NOTE' $OUT/$p.out)" >> $OUT/summary.txt
done
echo DONE >> $OUT/summary.txt
