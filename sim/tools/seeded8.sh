#!/bin/bash
# usage: seeded4.sh <ID> [checks...]  -- eighth wave: import a seeded change from /tmp/mut8/out/<ID> into /verif/seeded/<ID>d, verify its
# demonstration both ways in the author's scratch worktree, then run the quick check(s) against a scratch worktree of /repo with the
# change applied (VERIF_REPO), so that a long run using /repo itself is not disturbed. The confirmation against /repo is seeded_check.sh.
ID=$1; shift
PROPS=${@:-$ID}
SRC=/tmp/mut8/out/$ID
W=/tmp/mut8/$ID
DST=/verif/seeded/${ID}h
mkdir -p $DST/demo
cp $SRC/patch.diff $SRC/meta.md $DST/ 2>/dev/null
(cd $SRC && find . -name 'zz_seeded*' | while read f; do mkdir -p $DST/demo/$(dirname $f); cp $f $DST/demo/$f; done)
if [ -d $W ]; then
  ( cd $W
    demo=$(git status --porcelain | grep '^??' | awk '{print $2}' | grep zz_seeded | head -5)
    echo "demo files: $demo" > $DST/verify.log
    git diff > /tmp/mut8/$ID.cur.patch
    for d in $demo; do pkg=./$(dirname $d)
      echo "== WITH change: go test $pkg" >> $DST/verify.log
      (timeout 600 go test -mod=mod -vet=off -count=1 -tags verif -run 'Seeded' $pkg >> $DST/verify.log 2>&1; echo "exit=$?" >> $DST/verify.log)
      git checkout -q -- .
      echo "== WITHOUT change: go test $pkg" >> $DST/verify.log
      (timeout 600 go test -mod=mod -vet=off -count=1 -tags verif -run 'Seeded' $pkg >> $DST/verify.log 2>&1; echo "exit=$?" >> $DST/verify.log)
      git apply /tmp/mut8/$ID.cur.patch
    done )
  grep -a -E "^== |^exit=" $DST/verify.log | tr '\n' ' '; echo
fi
E=/tmp/mut8/eval-$ID
git -C /repo worktree remove --force $E 2>/dev/null
git -C /repo worktree add -q --detach $E HEAD || exit 2
cd $E
git apply --check $DST/patch.diff 2>/tmp/apply.err || { echo "PATCH DOES NOT APPLY TO /repo HEAD: $(head -2 /tmp/apply.err)"; git -C /repo worktree remove --force $E; exit 1; }
git apply $DST/patch.diff
go build ./... || { echo "DOES NOT BUILD"; git -C /repo worktree remove --force $E; exit 2; }
if go test -mod=mod -vet=off -count=1 ./... > /tmp/seeded_suite.log 2>&1; then echo "pinned suite: pass"; else echo "pinned suite: FAIL"; fi
for p in $PROPS; do
  s=$(date +%s)
  (cd /verif && VERIF_REPO=$E timeout 1500 sim/bin/verifsim check $p --tier quick --workers 6 > $DST/check_$p.log 2>&1); rc=$?
  echo "CHECK $p rc=$rc $(( $(date +%s)-s ))s violations=$(grep -a -c '^VIOLATION' $DST/check_$p.log)"
  grep -a -A2 "^  [A-Z]" $DST/check_$p.log | grep -v "^--" | cut -c1-300 | head -9
done
git -C /repo worktree remove --force $E
