#!/usr/bin/env python3
"""Replay a replay file with tracing and print waits/events compactly."""
import sys, json, subprocess, os
f = sys.argv[1]
ev = len(sys.argv) > 2
r = json.load(open(f))
print("SCRIPT:", [(t['b'], t.get('cmd')) for t in r['scenario'].get('script', [])])
print("PLAN:", r['scenario']['plan'], "PLANS:", len(r['scenario'].get('plans') or []))
env = dict(r['scenario']['env']); env.pop('binds', None)
print("ENV:", env)
t = subprocess.run([os.environ.get('VERIFSIM','/verif/sim/bin/verifsim'), 'replay', f, '--trace'], capture_output=True, text=True, timeout=120).stdout
i = t.find('[\n')
print(t[:i] if i >= 0 else t)
if i >= 0:
    d = json.loads(t[i:t.rindex(']') + 1])
    for n, s in enumerate(d):
        print("== session", n, s['end'], s.get('returns'), s.get('blocked'))
        for w in s['waits']:
            print('  ', w)
        if ev:
            for e in s.get('events') or []:
                print('     ', e)
        if s.get('screen'):
            print('  screen:', [x for x in s['screen'] if x], 'cursor', s.get('cursor'))
