#!/bin/sh
# usage: fixcommit.sh "<commit message>"   -- commits /repo's working tree as a fix: commit only if the pinned suite passes
cd /repo || exit 2
go build ./... || { echo "BUILD FAILED"; exit 1; }
if go test -mod=mod -vet=off -count=1 ./... > /tmp/fixcommit.log 2>&1; then
  git commit -qam "$1" && git log --oneline | head -1
else
  grep -v "no test files" /tmp/fixcommit.log | head -40
  echo "TESTS FAILED: not committed"
  exit 1
fi
