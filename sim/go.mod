module verifsim

go 1.26.8

require github.com/reeflective/readline v0.0.0

require (
	github.com/rivo/uniseg v0.4.4 // indirect
	golang.org/x/sys v0.8.0 // indirect
)

replace github.com/reeflective/readline => /repo
