package props

import (
	"fmt"
	"os"
	"sort"
	"strings"

	"github.com/reeflective/readline"
	"github.com/reeflective/readline/inputrc"

	"verifsim/sim"
	"verifsim/wire"
)

// ---------------------------------------------------------------- C13: conditional directives

func init() {
	register(&Family{ID: "C13", Gen: genC13, Exec: execC13, Budget: budget(40000, 4000000)})
}

// rcLine is one line of a generated program, in structured form: the
// reference evaluator works on this, the parser on its rendering.
type rcLine struct {
	K     string     `json:"k"` // if | else | endif | keymap | set | bind | comment | include
	Cond  string     `json:"cond,omitempty"`
	Name  string     `json:"name,omitempty"`  // keymap name, variable name, include file
	Value string     `json:"value,omitempty"` // variable value, bind action / macro body (inputrc notation)
	Note  string     `json:"note,omitempty"`  // key notation as written
	Typed wire.Bytes `json:"typed,omitempty"` // what the notation means, in typed form
	Macro bool       `json:"macro,omitempty"`
	Text  string     `json:"text,omitempty"` // comment text
}

type c13X struct {
	Prog  []rcLine            `json:"prog"`
	Files map[string][]rcLine `json:"files,omitempty"`
	Mode  string              `json:"mode"`
	Term  string              `json:"term"`
	App   string              `json:"app"`
	Route string              `json:"route"` // parse | newshell | reread
	Chunk int                 `json:"chunk"`
}

type notation struct {
	text  string
	typed string
}

var c13Notations = []notation{
	{`"\C-a"`, "\x01"}, {`"\M-x"`, "\x1bx"}, {`"\e[A"`, "\x1b[A"}, {`"\C-x\C-r"`, "\x18\x12"}, {`"ab"`, "ab"}, {`"\""`, "\""},
	{`"\\"`, "\\"}, {`"\101"`, "A"}, {`"\x41"`, "A"}, {`"\M-\C-h"`, "\x1b\b"}, {`"\C-?"`, "\x7f"}, {`"\t"`, "\t"},
	{`Control-a`, "\x01"}, {`Meta-Rubout`, "\x1b\x7f"}, {`C-M-x`, "\x1b\x18"}, {`Meta-Control-h`, "\x1b\b"}, {`TAB`, "\t"},
	{`ESC`, "\x1b"}, {`M-a`, "\x1ba"}, {`RET`, "\r"}, {`SPC`, " "}, {`Rubout`, "\x7f"}, {`Return`, "\r"}, {`C-a`, "\x01"},
	{`control-b`, "\x02"}, {`"\C-b\C-b"`, "\x02\x02"}, {`"\ez"`, "\x1bz"}, {`"\e\e"`, "\x1b\x1b"}, {`"xyz"`, "xyz"}, {`"\C-]q"`, "\x1dq"},
	{`"\C-]w"`, "\x1dw"}, {`"\C-]e"`, "\x1de"}, {`"\C-]r"`, "\x1dr"}, {`"\C-]t"`, "\x1dt"}, {`"\C-]y"`, "\x1dy"},
	// a prefix with nothing after it before the closing quote: a bare \M- is the ESC it stands for
	{`"\M-"`, "\x1b"}, {`"\C-]\M-"`, "\x1d\x1b"}, {`"\C-]u\M-"`, "\x1du\x1b"},
}

var c13Keymaps = []string{"emacs", "emacs-standard", "emacs-meta", "emacs-ctlx", "vi", "vi-move", "vi-command", "vi-insert"}
var c13Vars = []struct{ name, kind string }{
	{"blink-matching-paren", "bool"}, {"completion-ignore-case", "bool"}, {"mark-modified-lines", "bool"}, {"show-all-if-ambiguous", "bool"},
	{"history-preserve-point", "bool"}, {"completion-query-items", "int"}, {"history-size", "int"}, {"keyseq-timeout", "int"},
	{"comment-begin", "string"}, {"bell-style", "string"}, {"emacs-mode-string", "string"},
	// the editing mode a file selects is not the mode `$if mode=` tests (that is the application's)
	{"editing-mode", "mode"},
}

func (g *Gen) c13Block(depth int, keymap *string, allowInclude bool, files map[string][]rcLine, x *c13X) []rcLine {
	var out []rcLine
	n := g.Range(1, 5)
	for i := 0; i < n; i++ {
		switch g.N(10) {
		case 0, 1:
			if depth < 5 {
				var cond string
				switch g.N(3) {
				case 0:
					cond = "mode=" + Pick(g, []string{"emacs", "vi"})
				case 1:
					cond = "term=" + Pick(g, []string{"xterm", "linux", "vt100"})
				default:
					cond = Pick(g, []string{"myapp", "Bash", "go", "other"})
				}
				out = append(out, rcLine{K: "if", Cond: cond})
				out = append(out, g.c13Block(depth+1, keymap, allowInclude, files, x)...)
				if g.P(50) {
					out = append(out, rcLine{K: "else"})
					out = append(out, g.c13Block(depth+1, keymap, allowInclude, files, x)...)
				}
				out = append(out, rcLine{K: "endif"})
			}
		case 2:
			km := Pick(g, c13Keymaps)
			out = append(out, rcLine{K: "keymap", Name: km})
		case 3, 4:
			v := Pick(g, c13Vars)
			var val string
			switch v.kind {
			case "bool":
				val = Pick(g, []string{"on", "off", "On", "OFF"})
			case "int":
				val = Pick(g, []string{"0", "5", "42", "100", "7"})
			case "mode":
				val = Pick(g, []string{"emacs", "vi"})
			default:
				val = Pick(g, []string{"none", "audible", "visible", "@", "(e)"})
			}
			out = append(out, rcLine{K: "set", Name: v.name, Value: val})
		case 5, 6, 7:
			nt := Pick(g, c13Notations)
			l := rcLine{K: "bind", Note: nt.text, Typed: wire.Bytes(nt.typed)}
			if g.P(25) {
				l.Macro = true
				l.Value = Pick(g, []string{"text", `\C-a\C-k`, `with \"quote\"`, "x", ""}) // (an empty body is the idiom for disabling a key)
			} else {
				l.Value = Pick(g, []string{"verif-probe-0", "verif-probe-1", "verif-probe-2", "beginning-of-line", "kill-line", "self-insert", "undo"})
			}
			out = append(out, l)
		case 8:
			out = append(out, rcLine{K: "comment", Text: Pick(g, []string{"# a comment", "", "   ", "\t# indented"})})
		default:
			if allowInclude && files != nil && len(files) < 2 {
				name := fmt.Sprintf("inc%d.rc", len(files))
				var fl []rcLine
				dummy := "emacs"
				for j := 0; j < g.Range(1, 4); j++ {
					nt := Pick(g, c13Notations)
					if g.P(25) {
						// a conditional block of its own inside the included file
						cond := Pick(g, []string{"mode=emacs", "mode=vi", "term=xterm", "myapp", "go"})
						fl = append(fl, rcLine{K: "if", Cond: cond})
						fl = append(fl, rcLine{K: "bind", Note: nt.text, Typed: wire.Bytes(nt.typed), Value: Pick(g, []string{"verif-probe-3", "end-of-line"})})
						if g.P(50) {
							fl = append(fl, rcLine{K: "else"})
							nt2 := Pick(g, c13Notations)
							fl = append(fl, rcLine{K: "bind", Note: nt2.text, Typed: wire.Bytes(nt2.typed), Value: "kill-line"})
						}
						fl = append(fl, rcLine{K: "endif"})
						continue
					}
					if g.P(70) {
						fl = append(fl, rcLine{K: "bind", Note: nt.text, Typed: wire.Bytes(nt.typed), Value: Pick(g, []string{"verif-probe-3", "end-of-line"})})
					} else {
						v := Pick(g, c13Vars[:5])
						fl = append(fl, rcLine{K: "set", Name: v.name, Value: Pick(g, []string{"on", "off"})})
					}
				}
				_ = dummy
				files[name] = fl
				out = append(out, rcLine{K: "include", Name: name})
			}
		}
	}
	return out
}

func genC13(g *Gen, tier string, idx int) *wire.Scenario {
	sc := &wire.Scenario{Prop: "C13", Family: "rcload"}
	x := c13X{Mode: Pick(g, []string{"emacs", "vi"}), Term: Pick(g, []string{"xterm", "linux"}), App: Pick(g, []string{"myapp", "bash", "go"}),
		Files: map[string][]rcLine{}}
	km := "emacs"
	x.Prog = g.c13Block(0, &km, true, x.Files, &x)
	x.Route = "parse"
	if idx%20 == 3 {
		x.Route = "newshell"
	}
	if idx%20 == 7 {
		x.Route = "reread"
	}
	x.Chunk = Pick(g, []int{0, 0, 1, 7})
	sc.X = mustJSON(x)
	sc.Env = wire.Env{Mode: "emacs", W: 80, H: 24, Prompt: "> "}
	sc.Plan = wire.Plan{Policy: "canonical", Class: "S0"}
	if x.Route == "reread" {
		sc.Script = []wire.Token{tok("a", "self-insert"), tok("\x18\x12", "re-read-init-file"), tok("b", "self-insert")}
	}
	return sc
}

func renderRC(prog []rcLine, dir string) string {
	var sb strings.Builder
	depth := 0
	for _, l := range prog {
		ind := strings.Repeat("  ", depth)
		switch l.K {
		case "if":
			sb.WriteString(ind + "$if " + l.Cond + "\n")
			depth++
		case "else":
			sb.WriteString(strings.Repeat("  ", max0(depth-1)) + "$else\n")
		case "endif":
			depth = max0(depth - 1)
			sb.WriteString(strings.Repeat("  ", depth) + "$endif\n")
		case "keymap":
			sb.WriteString(ind + "set keymap " + l.Name + "\n")
		case "set":
			sb.WriteString(ind + "set " + l.Name + " " + l.Value + "\n")
		case "bind":
			if l.Macro {
				sb.WriteString(ind + l.Note + ": \"" + l.Value + "\"\n")
			} else {
				sb.WriteString(ind + l.Note + ": " + l.Value + "\n")
			}
		case "comment":
			sb.WriteString(l.Text + "\n")
		case "include":
			sb.WriteString(ind + "$include " + dir + l.Name + "\n")
		}
	}
	return sb.String()
}

func max0(a int) int {
	if a < 0 {
		return 0
	}
	return a
}

type refBind struct {
	action string
	macro  bool
}

// refEval is the reference evaluator, written from the statement.
func refEval(x *c13X, innerAlone bool) (binds map[string]map[string]refBind, vars map[string]string) {
	binds = map[string]map[string]refBind{}
	vars = map[string]string{}
	refEvalInto(x, innerAlone, binds, vars)
	return
}

// refEvalTwice models the second known defect: at start-up and on re-read-init-file the
// user's file is parsed twice, first as application "go" with no mode and no terminal.
func refEvalTwice(x *c13X, innerAlone bool) (binds map[string]map[string]refBind, vars map[string]string) {
	binds = map[string]map[string]refBind{}
	vars = map[string]string{}
	first := *x
	first.Mode, first.Term, first.App = "", "", "go"
	refEvalInto(&first, innerAlone, binds, vars)
	refEvalInto(x, innerAlone, binds, vars)
	return
}

func refEvalInto(x *c13X, innerAlone bool, binds map[string]map[string]refBind, vars map[string]string) {
	var run func(prog []rcLine, keymap *string, stack []bool)
	live := func(stack []bool) bool {
		if innerAlone {
			// the known defect: only the innermost level is consulted
			return len(stack) == 0 || stack[len(stack)-1]
		}
		for _, b := range stack {
			if !b {
				return false
			}
		}
		return true
	}
	run = func(prog []rcLine, keymap *string, stack []bool) {
		for _, l := range prog {
			switch l.K {
			case "if":
				var v bool
				switch {
				case strings.HasPrefix(l.Cond, "mode="):
					v = strings.TrimPrefix(l.Cond, "mode=") == x.Mode
				case strings.HasPrefix(l.Cond, "term="):
					v = strings.TrimPrefix(l.Cond, "term=") == x.Term
				default:
					v = strings.EqualFold(l.Cond, x.App)
				}
				stack = append(stack, v)
			case "else":
				if len(stack) > 0 {
					stack[len(stack)-1] = !stack[len(stack)-1]
				}
			case "endif":
				if len(stack) > 0 {
					stack = stack[:len(stack)-1]
				}
			case "keymap":
				if live(stack) {
					*keymap = l.Name
				}
			case "set":
				if live(stack) {
					vars[l.Name] = l.Value
				}
			case "bind":
				if live(stack) {
					if binds[*keymap] == nil {
						binds[*keymap] = map[string]refBind{}
					}
					binds[*keymap][string(l.Typed)] = refBind{l.Value, l.Macro}
				}
			case "include":
				if live(stack) {
					// an included file is evaluated with its own keymap selection (starting at emacs);
					// the generator only includes while the including file's keymap is emacs as well
					km := "emacs"
					run(x.Files[l.Name], &km, append([]bool(nil), stack...))
				}
			}
		}
	}
	km := "emacs"
	run(x.Prog, &km, nil)
}

func normVar(kind, v string) string {
	switch kind {
	case "bool":
		if strings.EqualFold(v, "on") || v == "1" {
			return "true"
		}
		return "false"
	}
	return v
}

func varKind(name string) string {
	for _, v := range c13Vars {
		if v.name == name {
			return v.kind
		}
	}
	return "string"
}

func execC13(x *Ctx, sc *wire.Scenario) *wire.Result {
	res := okResult(sc)
	var xx c13X
	jsonInto(sc.X, &xx)
	// $include only while the keymap is emacs: drop includes after a live non-emacs keymap (by rendering rule)
	prog := sanitizeIncludes(xx.Prog)
	xx.Prog = prog
	wantB, wantV := refEval(&xx, false)
	bugB, bugV := refEval(&xx, true)
	nestedKnown := fmt.Sprint(bugB) != fmt.Sprint(wantB) || fmt.Sprint(bugV) != fmt.Sprint(wantV)
	res.Sessions = 1
	res.Nontrivial = len(prog) > 2
	depth, maxDepth := 0, 0
	for _, l := range prog {
		if l.K == "if" {
			depth++
			if depth > maxDepth {
				maxDepth = depth
			}
		} else if l.K == "endif" {
			depth--
		}
	}
	res.Counters[fmt.Sprintf("nesting_depth_%d", maxDepth)]++
	text := renderRC(prog, "")
	res.SigHash = fmt.Sprintf("%016x", hash2(text+xx.Mode+xx.Term+xx.App+xx.Route, uint64(len(text))))
	files := map[string][]byte{}
	for n, fl := range xx.Files {
		files[n] = []byte(renderRC(fl, ""))
	}
	readFile := func(name string) ([]byte, error) {
		if b, ok := files[name]; ok {
			return b, nil
		}
		return nil, os.ErrNotExist
	}
	opts := []inputrc.Option{inputrc.WithMode(xx.Mode), inputrc.WithTerm(xx.Term), inputrc.WithApp(xx.App)}
	var compareTo func(cfg *inputrc.Config, exact bool, route string, wantB map[string]map[string]refBind, wantV map[string]string, res *wire.Result) bool
	compare := func(cfg *inputrc.Config, exact bool, route string) bool {
		scratch := okResult(sc)
		if compareTo(cfg, exact, route, wantB, wantV, scratch) {
			return true
		}
		if route != "parse" {
			for _, alt := range []struct {
				inner bool
				name  string
			}{{false, "user-file-parsed-twice"}, {true, "user-file-parsed-twice+nested-if-evaluated-without-its-enclosing-level"}} {
				tb, tv := refEvalTwice(&xx, alt.inner)
				if compareTo(cfg, exact, route, tb, tv, okResult(sc)) {
					violation(res, "MISMATCH", "C13.all-enclosing-conditions", alt.name+":"+route,
						fmt.Sprintf("[%s] the configuration is what results from parsing the file twice, the first time as application \"go\" with no mode and no terminal: $else branches and `$if go` blocks of the first pass stay in effect\nmode=%s term=%s app=%s\n%s\nfirst difference: %s", route, xx.Mode, xx.Term, xx.App, text, scratch.Msg))
					return false
				}
			}
		}
		if nestedKnown && compareTo(cfg, exact, route, bugB, bugV, okResult(sc)) {
			violation(res, "MISMATCH", "C13.all-enclosing-conditions", "nested-if-evaluated-without-its-enclosing-level:"+route,
				fmt.Sprintf("[%s] the configuration is what results from consulting only the innermost $if/$else level: directives inside an inactive outer block took effect\nmode=%s term=%s app=%s\n%s\nfirst difference: %s", route, xx.Mode, xx.Term, xx.App, text, scratch.Msg))
			return false
		}
		// not explained by a known defect: say how the result differs from each model
		why := ""
		if route != "parse" {
			d := okResult(sc)
			tb, tv := refEvalTwice(&xx, true)
			compareTo(cfg, exact, route, tb, tv, d)
			why += "\n  vs parsed-twice+innermost-level model: " + firstLines(d.Msg, 1)
		}
		d := okResult(sc)
		compareTo(cfg, exact, route, bugB, bugV, d)
		why += "\n  vs innermost-level model: " + firstLines(d.Msg, 1)
		msg := scratch.Msg
		if i := strings.Index(msg, "\n"); i >= 0 {
			msg = msg[:i] + why + msg[i:]
		}
		violation(res, scratch.Class, scratch.Oracle, scratch.Sig, msg)
		return false
	}
	compareTo = func(cfg *inputrc.Config, exact bool, route string, wantB map[string]map[string]refBind, wantV map[string]string, res *wire.Result) bool {
		// binds: compared in typed form
		// several stored sequences can have the same typed form (a meta rune and its ESC-prefixed
		// spelling): keep them all, in a fixed order, so that the comparison does not depend on
		// the iteration order of the library's maps
		got := map[string]map[string]refBind{}
		alts := map[string][]refBind{}
		for _, km := range sortedKeys(cfg.Binds) {
			m := cfg.Binds[km]
			for _, seq := range sortedKeys(m) {
				b := m[seq]
				if got[km] == nil {
					got[km] = map[string]refBind{}
				}
				typed := ConvertMeta(seq)
				alts[km+"\x00"+typed] = append(alts[km+"\x00"+typed], refBind{b.Action, b.Macro})
				if wb, ok := wantB[km][typed]; ok {
					// prefer the alternative that is the wanted one (a macro body is stored unescaped)
					if prev, seen := got[km][typed]; seen && prev.macro == wb.macro &&
						(prev.action == wb.action || (wb.macro && inputrc.Unescape(prev.action) == inputrc.Unescape(wb.action))) {
						continue
					}
				}
				got[km][typed] = refBind{b.Action, b.Macro}
			}
		}
		_ = alts
		for _, km := range sortedKeys(wantB) {
			m := wantB[km]
			for _, seq := range sortedKeys(m) {
				wb := m[seq]
				gb, ok := got[km][seq]
				wantAct := wb.action
				if wb.macro {
					wantAct = wb.action
				}
				if !ok || gb.macro != wb.macro || (gb.action != wantAct && !(wb.macro && inputrc.Unescape(gb.action) == inputrc.Unescape(wantAct))) {
					cls := "live-bind-missing"
					if ok {
						cls = "live-bind-differs"
					}
					violation(res, "MISMATCH", "C13.live-directive-takes-effect", cls+":"+route,
						fmt.Sprintf("[%s] keymap %s: sequence %q should be bound to %q (macro=%v), found %+v present=%v\nmode=%s term=%s app=%s\n%s", route, km, seq, wb.action, wb.macro, gb, ok, xx.Mode, xx.Term, xx.App, text))
					return false
				}
			}
		}
		if exact {
			for _, km := range sortedKeys(got) {
				m := got[km]
				for _, seq := range sortedKeys(m) {
					gb := m[seq]
					if _, ok := wantB[km][seq]; !ok {
						violation(res, "MISMATCH", "C13.dead-directive-has-no-effect", "dead-bind-applied:"+route,
							fmt.Sprintf("[%s] keymap %s: sequence %q is bound to %q although no live directive binds it there\nmode=%s term=%s app=%s\n%s", route, km, seq, gb.action, xx.Mode, xx.Term, xx.App, text))
						return false
					}
				}
			}
		}
		if exact {
			for _, name := range sortedKeys(cfg.Vars) {
				if _, ok := wantV[name]; !ok {
					violation(res, "MISMATCH", "C13.dead-directive-has-no-effect", "dead-set-applied:"+route,
						fmt.Sprintf("[%s] variable %s is set although every assignment to it is in an inactive block\nmode=%s term=%s app=%s\n%s", route, name, xx.Mode, xx.Term, xx.App, text))
					return false
				}
			}
		}
		for _, name := range sortedKeys(wantV) {
			wv := wantV[name]
			gv, ok := cfg.Vars[name]
			if !ok || fmt.Sprint(gv) != normVar(varKind(name), wv) {
				violation(res, "MISMATCH", "C13.live-directive-takes-effect", "live-set-missing:"+varKind(name)+":"+route,
					fmt.Sprintf("[%s] variable %s should be %q (live set), found %v (present=%v)\nmode=%s term=%s app=%s\n%s", route, name, wv, gv, ok, xx.Mode, xx.Term, xx.App, text))
				return false
			}
		}
		return true
	}
	switch xx.Route {
	case "parse":
		cfg := inputrc.NewConfig()
		cfg.ReadFileFunc = readFile
		var fired int
		rd := &faultyReader{data: []byte(text), chunk: xx.Chunk, errAt: -1, fired: &fired}
		var perr error
		pmsg := ""
		func() {
			defer func() {
				if r := recover(); r != nil {
					pmsg = fmt.Sprint(r)
				}
			}()
			perr = inputrc.Parse(rd, cfg, opts...)
		}()
		if pmsg != "" {
			res.Counters["skipped:parser_panic"]++
			return res
		}
		if perr != nil {
			return violation(res, "MISMATCH", "C13.well-formed-program-parses", "well-formed-rejected", fmt.Sprintf("well-formed program rejected: %v\n%s", perr, text))
		}
		if compare(cfg, true, "parse") {
			// dead variable assignments: a variable only set in dead blocks must stay unset
			for _, l := range prog {
				if l.K == "set" {
					if _, live := wantV[l.Name]; !live {
						if _, ok := cfg.Vars[l.Name]; ok {
							return violation(res, "MISMATCH", "C13.dead-directive-has-no-effect", "dead-set-applied:parse",
								fmt.Sprintf("variable %s is set although every assignment to it is in an inactive block\nmode=%s term=%s app=%s\n%s", l.Name, xx.Mode, xx.Term, xx.App, text))
						}
					}
				}
			}
		}
	case "newshell", "reread":
		// (2) $INPUTRC at NewShell, (3) re-read-init-file after the file changed
		env := sc.Env
		dir := x.P.Dir + "/"
		full := renderRC(prog, dir)
		for n, b := range files {
			if env.Files == nil {
				env.Files = map[string]string{}
			}
			env.Files[n] = string(b)
		}
		fired := map[int]int{}
		var cfgAfter *inputrc.Config
		hooks := sim.Hooks{
			Setup: func(s *sim.Session, sh *readline.Shell) {
				cmds := map[string]func(){}
				for i := 0; i < 4; i++ {
					n := i
					cmds[fmt.Sprintf("verif-probe-%d", i)] = func() { fired[n]++ }
				}
				sh.Keymap.Register(cmds)
				if xx.Route == "reread" {
					// the configuration changes on disk after start-up
					os.WriteFile(x.P.Path("inputrc"), []byte(full), 0o600)
				}
			},
			OnEnd: func(s *sim.Session, sh *readline.Shell) { cfgAfter = sh.Config },
		}
		sc2 := *sc
		sc2.Env = env
		sc2.Env.Opts = &wire.OptSpec{App: xx.App, Term: xx.Term, Mode: xx.Mode}
		if xx.Route == "newshell" {
			sc2.Env.Inputrc = strings.Split(strings.TrimRight(full, "\n"), "\n")
			sc2.Env.Mode = ""
			sc2.Script = []wire.Token{tok("a", "self-insert")}
		}
		out := runSession(x, &sc2, sc.Plan, hooks, false)
		absorb(res, out)
		if out.End == "PANIC" || out.End == "DEADLOCK" || cfgAfter == nil {
			res.Counters["skipped:crash"]++
			return res
		}
		// library post-processing re-binds C-c in every keymap: not judged
		compare(cfgAfter, false, xx.Route)
		if res.Verdict == "violation" {
			return res
		}
		// dead binds of the generated (default-table-free) sequences must be absent
		for _, l := range prog {
			if l.K != "bind" || !strings.HasPrefix(string(l.Typed), "\x1d") {
				continue
			}
			for _, km := range sortedKeys(cfgAfter.Binds) {
				m := cfgAfter.Binds[km]
				for _, seq := range sortedKeys(m) {
					b := m[seq]
					if ConvertMeta(seq) == string(l.Typed) {
						if _, ok := wantB[km][string(l.Typed)]; !ok {
							// a known defect explains it when its model binds this very sequence
							for _, alt := range []struct {
								twice, inner bool
								name, what   string
							}{
								{true, false, "user-file-parsed-twice", "parsing the file twice, the first time as application \"go\" with no mode and no terminal: $else branches and `$if go` blocks of the first pass stay in effect"},
								{false, true, "nested-if-evaluated-without-its-enclosing-level", "consulting only the innermost $if/$else level: directives inside an inactive outer block took effect"},
								{true, true, "user-file-parsed-twice+nested-if-evaluated-without-its-enclosing-level", "parsing the file twice (first as application \"go\" with no mode and no terminal) and consulting only the innermost $if/$else level"},
							} {
								var tb map[string]map[string]refBind
								if alt.twice {
									tb, _ = refEvalTwice(&xx, alt.inner)
								} else {
									tb, _ = refEval(&xx, alt.inner)
								}
								if mb, ok := tb[km][string(l.Typed)]; ok && mb.macro == b.Macro && (mb.action == b.Action || (mb.macro && inputrc.Unescape(mb.action) == inputrc.Unescape(b.Action))) {
									return violation(res, "MISMATCH", "C13.all-enclosing-conditions", alt.name+":"+xx.Route,
										fmt.Sprintf("[%s] the configuration is what results from %s\nkeymap %s: sequence %q is bound to %q although no live directive binds it there\nmode=%s term=%s app=%s\n%s", xx.Route, alt.what, km, string(l.Typed), b.Action, xx.Mode, xx.Term, xx.App, full))
								}
							}
							return violation(res, "MISMATCH", "C13.dead-directive-has-no-effect", "dead-bind-applied:"+xx.Route,
								fmt.Sprintf("[%s] keymap %s: sequence %q is bound to %q although no live directive binds it there\nmode=%s term=%s app=%s\n%s", xx.Route, km, string(l.Typed), b.Action, xx.Mode, xx.Term, xx.App, full))
						}
					}
				}
			}
		}
	}
	if sc.Index%4000 == 0 {
		res.Sample = map[string]any{"index": sc.Index, "route": xx.Route, "mode": xx.Mode, "term": xx.Term, "app": xx.App, "program": strings.Split(text, "\n"), "live_binds": fmt.Sprint(wantB), "live_vars": wantV}
	}
	return res
}

// sanitizeIncludes removes $include lines that would be evaluated while a keymap other
// than emacs may be selected (the statement does not say whether selection crosses an include).
func sanitizeIncludes(prog []rcLine) []rcLine {
	var out []rcLine
	sawKeymap := false
	for _, l := range prog {
		if l.K == "keymap" {
			sawKeymap = true
		}
		if l.K == "include" && sawKeymap {
			continue
		}
		out = append(out, l)
	}
	return out
}

var _ = sort.Strings

func firstLines(s string, n int) string {
	ls := strings.SplitN(s, "\n", n+1)
	if len(ls) > n {
		ls = ls[:n]
	}
	return strings.Join(ls, "\n")
}
