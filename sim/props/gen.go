package props

import (
	"fmt"
	"strings"

	"verifsim/wire"
)

// ---------------------------------------------------------------- text

var asciiText = []rune("abcdefgh ijk  xyz012 .,;:-_/|\\\"'(){}[]<>!?#$%&*+=~^@`")
var latin1Text = []rune("éüñßçøÅÆ¿¡")
var wideText = []rune("日本語漢字한글かなカナ")
var astralText = []rune("𝒳𝔘𐍈")
var combiningText = []rune{0x0301, 0x0308, 0x0323}

// textRune draws one printable rune from the enabled classes.
func (g *Gen) textRune(unicode bool) rune {
	if !unicode || g.P(70) {
		return Pick(g, asciiText)
	}
	switch g.N(4) {
	case 0:
		return Pick(g, latin1Text)
	case 1, 2:
		return Pick(g, wideText)
	default:
		return Pick(g, astralText)
	}
}

func (g *Gen) word(unicode bool, max int) string {
	n := g.Range(1, max)
	var sb strings.Builder
	for i := 0; i < n; i++ {
		r := g.textRune(unicode)
		if r == ' ' {
			r = 'a'
		}
		sb.WriteRune(r)
	}
	return sb.String()
}

func (g *Gen) histLine(unicode bool) string {
	n := g.Range(1, 4)
	var ws []string
	for i := 0; i < n; i++ {
		ws = append(ws, g.word(unicode, 6))
	}
	s := strings.Join(ws, " ")
	if g.P(8) {
		s += "\n" + g.word(unicode, 5)
	}
	return s
}

// ---------------------------------------------------------------- env

var boolVars = []string{
	"autopairs", "autocomplete", "history-autosuggest", "usage-hint-always", "multiline-column",
	"multiline-column-numbered", "blink-matching-paren", "completion-ignore-case",
	"menu-complete-display-prefix", "revert-all-at-newline", "history-preserve-point",
	"show-mode-in-prompt", "convert-meta", "input-meta", "output-meta", "enable-meta-key",
	"mark-modified-lines", "skip-completed-text", "show-all-if-ambiguous", "show-all-if-unmodified",
	"prompt-transient", "colored-stats", "colored-completion-prefix", "enable-bracketed-paste",
	"print-completions-horizontally", "completion-map-case", "disable-completion", "page-completions",
}

// swarmEnv draws a random environment: geometry, prompt, variables, history.
func (g *Gen) swarmEnv(mode string) wire.Env {
	env := wire.Env{Mode: mode}
	switch g.N(4) {
	case 0:
		env.W = g.Range(8, 24)
	case 1:
		env.W = g.Range(25, 60)
	default:
		env.W = g.Range(61, 200)
	}
	env.H = g.Range(4, 60)
	env.StartRow = g.N(env.H)
	switch g.N(6) {
	case 0:
		env.Prompt = ""
	case 1:
		env.Prompt = "$ "
	case 2:
		env.Prompt = "\x1b[32muser@host\x1b[0m:~> "
	case 3:
		env.Prompt = "日本> "
	case 4:
		env.Prompt = "line one\nλ "
	default:
		env.Prompt = strings.Repeat("p", g.N(env.W)) + " "
	}
	if g.P(10) {
		env.RPrompt = "[rp]"
	}
	nv := g.N(5)
	if g.P(40) {
		nv = 0
	}
	for i := 0; i < nv; i++ {
		v := Pick(g, boolVars)
		val := "on"
		if g.P(35) {
			val = "off"
		}
		env.Inputrc = append(env.Inputrc, fmt.Sprintf("set %s %s", v, val))
	}
	if g.P(15) {
		env.Inputrc = append(env.Inputrc, fmt.Sprintf("set history-size %d", Pick(g, []int{0, 1, 2, 5, 500})))
	}
	if g.P(10) {
		env.Inputrc = append(env.Inputrc, fmt.Sprintf("set completion-query-items %d", Pick(g, []int{0, 1, 5, 100})))
	}
	// history contents
	if g.P(75) {
		n := Pick(g, []int{0, 1, 1, 2, 3, 5, 8, 20})
		kind := Pick(g, []string{"memory", "memory", "file"})
		h := wire.HistSrc{Kind: kind, Name: "h0"}
		for i := 0; i < n; i++ {
			h.Entries = append(h.Entries, g.histLine(g.P(20)))
		}
		env.History = append(env.History, h)
		if g.P(15) {
			h2 := wire.HistSrc{Kind: "memory", Name: "h1"}
			for i := 0; i < g.N(4); i++ {
				h2.Entries = append(h2.Entries, g.histLine(false))
			}
			env.History = append(env.History, h2)
		}
	}
	if len(env.History) == 0 && g.P(30) {
		env.NoDefaultHistory = true // the application has unbound every history source
	}
	if g.P(40) {
		env.Comp = g.compSpec(g.Range(1, 12), false)
	}
	if g.P(15) {
		env.Multiline = "backslash"
	}
	env.Binds = append(env.Binds, g.Cat.Extra...)
	return env
}

func (g *Gen) compSpec(n int, unicode bool) *wire.CompSpec {
	spec := &wire.CompSpec{PrefixOnly: g.P(70)}
	seen := map[string]bool{}
	described := g.P(40)
	tags := []string{""}
	if g.P(30) {
		tags = []string{"alpha", "beta"}
	}
	for len(spec.Cands) < n {
		v := g.word(unicode, 7)
		v = strings.Map(func(r rune) rune {
			if strings.ContainsRune(" \\\"'`$()[]{}<>|&;*?!#~=%^:@,\t", r) {
				return 'k'
			}
			return r
		}, v)
		if seen[v] {
			v += fmt.Sprint(len(spec.Cands))
		}
		seen[v] = true
		c := wire.Cand{Value: v, Tag: Pick(g, tags)}
		if described {
			c.Desc = "desc " + g.word(false, 4)
			if g.P(25) && len(spec.Cands) > 0 {
				c.Desc = spec.Cands[len(spec.Cands)-1].Desc
				c.Tag = spec.Cands[len(spec.Cands)-1].Tag
			}
		}
		spec.Cands = append(spec.Cands, c)
	}
	return spec
}

// ---------------------------------------------------------------- scripts

// argCommands read one more key from the terminal.
var argCommands = map[string]bool{
	"quoted-insert": true, "vi-change-char": true, "vi-add-surround": true, "vi-set-buffer": true,
	"vi-select-surround": true, "vi-find-next-char": true, "vi-find-next-char-skip": true,
	"vi-find-prev-char": true, "vi-find-prev-char-skip": true, "macro-toggle-record": true,
	"macro-run": true, "prefix-meta": true, "overwrite-mode": true,
	"character-search": true, "character-search-backward": true,
}

// acceptors end the Readline call.
var acceptors = map[string]bool{
	"accept-line": true, "accept-and-hold": true, "operate-and-get-next": true, "accept-and-infer-next-history": true,
	"end-of-file": true, "vi-eof-maybe": true, "abort": true, "insert-comment": true, "autosuggest-execute": true,
	"edit-and-execute-command": true, "vi-edit-and-execute-command": true,
}

type tracker struct {
	main  string
	local string
}

func (t *tracker) after(cmd string) {
	switch cmd {
	case "vi-movement-mode":
		if t.local != "" {
			t.local = ""
		} else if t.main == "vi-insert" {
			t.main = "vi-command"
		}
	case "vi-insertion-mode", "vi-append-mode", "vi-append-eol", "vi-insert-beg", "vi-open-line-above",
		"vi-open-line-below", "vi-subst", "vi-change-eol", "vi-editing-mode":
		t.main = "vi-insert"
		t.local = ""
	case "vi-delete-to", "vi-yank-to", "vi-change-to", "vi-up-case", "vi-down-case", "vi-change-case":
		if t.local == "vi-visual" {
			t.local = ""
		} else if t.main == "vi-command" {
			t.local = "vi-opp"
		}
	case "vi-visual-mode", "vi-visual-line-mode":
		if t.local == "vi-visual" {
			t.local = ""
		} else {
			t.local = "vi-visual"
		}
	case "emacs-editing-mode":
		t.main = "emacs"
		t.local = ""
	case "reverse-search-history", "forward-search-history", "incremental-forward-search-history",
		"incremental-reverse-search-history", "vi-search":
		t.local = "isearch"
	case "complete", "menu-complete", "menu-complete-backward", "possible-completions", "vi-registers-complete":
		t.local = "menu-select"
	default:
		if t.local == "vi-opp" {
			t.local = ""
		}
	}
}

// ScriptOpts tunes the edit-script generator.
type ScriptOpts struct {
	Mode      string
	N         int
	Unicode   bool
	RawPct    int  // share of raw material
	NoAccept  bool // never emit commands that end the call
	Only      map[string]bool
	Exclude   map[string]bool
	EndAccept bool
	NativeVi  bool // do not run vi-* commands through harness binds outside vi command mode
	NoExtra   bool // never use the harness binds: only default key sequences
}

func tok(b string, cmd string) wire.Token { return wire.Token{B: wire.Bytes(b), Cmd: cmd} }

func (g *Gen) rawToken() wire.Token {
	switch g.N(9) {
	case 0:
		return tok(string([]byte{byte(g.N(256))}), "raw-byte")
	case 1:
		return tok(string([]byte{byte(g.N(32))}), "raw-ctrl")
	case 2:
		fin := Pick(g, []string{"A", "B", "C", "D", "H", "F", "~", "Z", "R", "u"})
		par := Pick(g, []string{"", "1", "3", "1;5", "1;3", "200", "5", "6", "2;3;4", "?1"})
		return tok("\x1b["+par+fin, "raw-csi")
	case 3:
		return tok("\x1bO"+Pick(g, []string{"A", "B", "C", "D", "H", "F", "P", "Q"}), "raw-ss3")
	case 4:
		return tok(Pick(g, []string{"\x1b[", "\x1b[1", "\x1b[1;", "\x1bO", "\x1b"}), "raw-truncated-esc")
	case 5:
		return tok(string([]byte{byte(0x80 + g.N(128))}), "raw-meta-byte")
	case 6:
		return tok(string(g.textRune(true)), "raw-utf8")
	case 7:
		b := []byte(string(Pick(g, wideText)))
		return tok(string(b[:g.Range(1, len(b)-1)]), "raw-broken-utf8")
	default:
		return tok("\x1b"+string([]byte{byte(g.Range(32, 126))}), "raw-meta-esc")
	}
}

// EditScript generates a key script of editing commands by name.
func (g *Gen) EditScript(o ScriptOpts) []wire.Token {
	t := tracker{main: "emacs"}
	if o.Mode == "vi" {
		t.main = "vi-insert"
	}
	return g.editScriptTracker(t, o)
}

func (g *Gen) editScriptTracker(t tracker, o ScriptOpts) []wire.Token {
	var out []wire.Token
	cat := g.Cat
	for len(out) < o.N {
		r := g.N(100)
		if r < 30 && !(t.main != "vi-command" && t.local == "") {
			r = 99
		}
		switch {
		case r < 30:
			n := 1
			if g.P(30) {
				n = g.Range(2, 6)
			}
			for i := 0; i < n; i++ {
				out = append(out, tok(string(g.textRune(o.Unicode)), "self-insert"))
			}
		case r < 30+o.RawPct:
			out = append(out, g.rawToken())
		case r < 38+o.RawPct:
			// numeric argument (never two groups in a row: their digits would concatenate
			// into counts of millions, which is a legitimately slow request, not a spin)
			if n := len(out); n > 0 && (out[n-1].Cmd == "digit-argument" || out[n-1].Cmd == "vi-arg-digit") {
				continue
			}
			d := fmt.Sprint(g.Range(0, 12))
			if g.P(10) {
				d = fmt.Sprint(g.Range(13, 999))
			}
			neg := g.P(10)
			for i, c := range d {
				switch t.main {
				case "vi-command":
					if i == 0 && c == '0' {
						c = '1'
					}
					out = append(out, tok(string(c), "vi-arg-digit"))
				default:
					if i == 0 && neg {
						out = append(out, tok("\x1b-", "digit-argument"))
					}
					out = append(out, tok("\x1b"+string(c), "digit-argument"))
				}
			}
		default:
			km := t.main
			if t.local != "" && g.P(60) {
				km = t.local
			}
			if t.local == "vi-opp" && g.P(20) {
				// operator + surround: the deepest argument-reading path of the vi keymaps
				out = append(out, tok("s", "vi-select-surround"), tok(string(Pick(g, []rune("\"'()[]{}<>"))), "arg-key"))
				if g.P(70) {
					out = append(out, tok(string(Pick(g, []rune("\"'([{x"))), "arg-key"))
				}
				t.local = ""
				continue
			}
			names := cat.Names[km]
			if len(names) == 0 {
				km = t.main
				names = cat.Names[km]
			}
			cmd := Pick(g, names)
			if o.Only != nil && !o.Only[cmd] {
				continue
			}
			if o.Exclude != nil && o.Exclude[cmd] {
				continue
			}
			if cmd == "self-insert" || cmd == "do-lowercase-version" {
				continue
			}
			if acceptors[cmd] && (o.NoAccept || g.P(85)) {
				continue
			}
			seq := cat.SeqFor(g, km, cmd)
			if seq == "" {
				continue
			}
			if o.NoExtra && strings.HasPrefix(seq, "\x1c") {
				continue // only commands reachable through the default tables
			}
			if o.NativeVi && strings.HasPrefix(seq, "\x1c") && km != "vi-command" && (strings.HasPrefix(cmd, "vi-") || strings.HasPrefix(cmd, "select-")) {
				continue // vi operators/motions are only reached through their own keymaps
			}
			out = append(out, tok(seq, cmd))
			wasOpp := t.local == "vi-opp"
			t.after(cmd)
			if (cmd == "vi-select-surround" || cmd == "vi-select-inside" || cmd == "vi-add-surround" || cmd == "vi-change-surround") && g.P(85) {
				// surround commands take a bracket or quote (and, after a change operator, a replacement)
				out = append(out, tok(string(Pick(g, []rune("\"'()[]{}<>`"))), "arg-key"))
				if wasOpp && g.P(70) {
					out = append(out, tok(string(Pick(g, []rune("\"'([{x"))), "arg-key"))
				}
				continue
			}
			if argCommands[cmd] && g.P(85) {
				if g.P(15) {
					out = append(out, g.rawToken())
				} else {
					out = append(out, tok(string(g.textRune(o.Unicode && g.P(30))), "arg-key"))
				}
				if cmd == "overwrite-mode" || cmd == "vi-replace" {
					for i := 0; i < g.N(3); i++ {
						out = append(out, tok(string(g.textRune(false)), "arg-key"))
					}
					out = append(out, tok("\x1b", "arg-esc"))
				}
			}
			if t.local == "isearch" && g.P(70) {
				for i := 0; i < g.Range(0, 3); i++ {
					out = append(out, tok(string(Pick(g, []rune("abcdexyz 01"))), "isearch-char"))
				}
				if cmd == "vi-search" && g.P(60) && !o.NoAccept {
					// accept the non-incremental search: back to command mode on the matched line
					out = append(out, tok("\r", "search-accept"))
					t.local = ""
				}
			}
		}
	}
	if o.EndAccept {
		out = append(out, tok("\r", "accept-line"))
	}
	return out
}

// allSites lists the yield sites the hooks define.
var allSites = []string{
	"wait.entry", "wait.waiting", "wait.read.returned", "wait.keysonce.before", "wait.keysonce.after",
	"readkey.entry", "readkey.keysonce.received", "readkey.read.returned",
	"cursor.queried", "cursor.received", "report.handoff.before", "report.handoff.after",
	"refresh.entry", "refresh.computed", "refresh.beforeshow", "acceptline.entry",
	"loop.top", "loop.refreshed", "loop.run.local", "loop.run.main",
	"printf.entry", "printtransientf.entry", "printf.beforerefresh",
	"resize.woken", "resize.done",
}

// siteSubset draws the yield sites that park in a run ("buggify" subset).
func (g *Gen) siteSubset(pct int) []string {
	var out []string
	for _, s := range allSites {
		if g.P(pct) {
			out = append(out, s)
		}
	}
	return out
}
