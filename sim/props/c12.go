package props

import (
	"errors"
	"fmt"
	"io"
	"os"
	"strings"

	"github.com/reeflective/readline/inputrc"

	"verifsim/sim"
	"verifsim/wire"
)

// ---------------------------------------------------------------- C12: parser totality

func init() {
	register(&Family{ID: "C12", Gen: genC12, Exec: execC12, Budget: budget(60000, 6000000)})
}

type c12X struct {
	Text     wire.Bytes            `json:"text"`
	Files    map[string]wire.Bytes `json:"files,omitempty"`
	FailRead map[string]string     `json:"fail_read,omitempty"` // path -> notexist | eio
	Entry    string                `json:"entry"`               // parse | bytes | userdefault | reread
	Chunk    int                   `json:"chunk"`               // reader chunk size (0 = all)
	ErrAt    int                   `json:"err_at"`              // reader fails after this many bytes (-1 = never)
	ErrKind  string                `json:"err_kind,omitempty"`  // eio | unexpected_eof | data_eof
	Halt     bool                  `json:"halt"`
	Strict   bool                  `json:"strict"`
	App      string                `json:"app,omitempty"`
	Term     string                `json:"term,omitempty"`
	Mode     string                `json:"mode,omitempty"`
	BigLine  int                   `json:"big_line,omitempty"` // append a line of this many bytes
	Nest     int                   `json:"nest,omitempty"`     // prepend this many "$if mode=emacs" lines
}

var rcFragments = []string{
	"set", "set ", "set x", "set keymap", "set keymap ", "set editing-mode", "set editing-mode vi", "set bell-style",
	"$include", "$include ", "$if", "$if ", "$if mode=", "$else", "$endif", "$", "$unknown x",
	"\"\\C-", "\"\\M-\\C-", "\"\\C-\\M-", "Control-", "Meta-", "C-", "M-", ":", "\":", "\"\"", "\"\":", "'", "''", "'':",
	"\"\\", "\"\\x", "\"\\x4", "\"\\1", "\"\\12", "\"a\": \"", "\"a\": '", "a:", "a: b", "Control-a:", "Control-a: ",
	"Meta-Control-", "\\", "\\C-a: x", "set convert-meta", "set convert-meta maybe", "set history-size x", "set history-size -1",
	"set history-size 99999999999999999999", "\"\\e[A\": previous-history", "TAB: complete", "RET", "SPC:", "Rubout: x", "DEL",
	"\"é\": self-insert", "set comment-begin é", "é: x", "Control-é: x", "\"\\C-é\": \"ü", "$if é", "set é on", "$include é",
	"set comment-begin \"", "set comment-begin '#", "set isearch-terminators \"\\C-", "\x00", "\xff\xfe", "\r", "#", " #", "\t",
}

func (g *Gen) rcWellFormed(depth int) []string {
	var out []string
	n := g.Range(1, 6)
	for i := 0; i < n; i++ {
		switch g.N(9) {
		case 0:
			if depth < 4 {
				cond := Pick(g, []string{"mode=emacs", "mode=vi", "term=xterm", "term=linux", "Bash", "go", "myapp"})
				out = append(out, "$if "+cond)
				out = append(out, g.rcWellFormed(depth+1)...)
				if g.P(50) {
					out = append(out, "$else")
					out = append(out, g.rcWellFormed(depth+1)...)
				}
				out = append(out, "$endif")
			}
		case 1:
			out = append(out, "set keymap "+Pick(g, []string{"emacs", "emacs-standard", "emacs-meta", "emacs-ctlx", "vi", "vi-move", "vi-command", "vi-insert", "bogus"}))
		case 2:
			out = append(out, fmt.Sprintf("set %s %s", Pick(g, boolVars), Pick(g, []string{"on", "off", "On", "1", "true"})))
		case 3:
			out = append(out, fmt.Sprintf("set %s %s", Pick(g, []string{"history-size", "completion-query-items", "keyseq-timeout"}), Pick(g, []string{"0", "5", "-1", "500"})))
		case 4:
			out = append(out, fmt.Sprintf("\"%s\": %s", Pick(g, []string{"\\C-a", "\\M-x", "\\e[A", "\\C-x\\C-r", "ab", "\\\"", "\\\\", "\\101", "\\x41", "\\M-\\C-h", "é", "日本", "\\C-xü"}), Pick(g, g.Cat.Commands)))
		case 5:
			out = append(out, fmt.Sprintf("%s: %s", Pick(g, []string{"Control-a", "Meta-Rubout", "C-M-x", "Meta-Control-h", "TAB", "ESC", "Control-Meta-j", "M-a"}), Pick(g, g.Cat.Commands)))
		case 6:
			out = append(out, fmt.Sprintf("\"%s\": \"%s\"", Pick(g, []string{"\\C-o", "\\ez", "xy"}), Pick(g, []string{"text", "\\C-a\\C-k", "with \\\"quote\\\"", "", "héllo wörld", "日本語"})))
		case 7:
			out = append(out, Pick(g, []string{"# comment", "", "   ", "\t# indented comment"}))
		default:
			out = append(out, "$include "+Pick(g, []string{"a.rc", "b.rc", "c.rc", "missing.rc", "/abs/d.rc", "~/e.rc"}))
		}
	}
	return out
}

func (g *Gen) damage(text []byte) []byte {
	if len(text) == 0 {
		return text
	}
	switch g.N(8) {
	case 0: // torn write
		return text[:g.N(len(text)+1)]
	case 1: // byte flips
		t := append([]byte(nil), text...)
		for i := 0; i < g.Range(1, 3); i++ {
			t[g.N(len(t))] ^= byte(1 << g.N(8))
		}
		return t
	case 2: // duplicate or drop a line
		ls := strings.Split(string(text), "\n")
		i := g.N(len(ls))
		if g.P(50) {
			ls = append(ls[:i], append([]string{ls[i]}, ls[i:]...)...)
		} else {
			ls = append(ls[:i], ls[i+1:]...)
		}
		return []byte(strings.Join(ls, "\n"))
	case 3: // insert junk
		junk := Pick(g, []string{"\r\n", "\x00", "\xff", "\xc3", "\xe2\x80", "\x1b", "\"", "'", "\\", ":", "$", " "})
		i := g.N(len(text) + 1)
		return append(append(append([]byte(nil), text[:i]...), junk...), text[i:]...)
	case 4: // fragment line
		ls := strings.Split(string(text), "\n")
		i := g.N(len(ls) + 1)
		ls = append(ls[:i], append([]string{Pick(g, rcFragments)}, ls[i:]...)...)
		return []byte(strings.Join(ls, "\n"))
	case 5: // CRLF
		return []byte(strings.ReplaceAll(string(text), "\n", "\r\n"))
	}
	return text
}

func genC12(g *Gen, tier string, idx int) *wire.Scenario {
	sc := &wire.Scenario{Prop: "C12", Family: "rcparse"}
	x := c12X{ErrAt: -1, Entry: Pick(g, []string{"parse", "parse", "bytes", "userdefault"})}
	if idx%40 == 7 {
		x.Entry = "reread"
	}
	var lines []string
	sel := g.N(10)
	if idx%10 == 3 {
		sel = 100
	}
	switch sel {
	case 100:
		// length sweep: an unfinished construct (open quote, trailing backslash, half an escape) at every
		// line length up to 72 -- a slice expression one past the end only panics when the backing array
		// happens to be full, which depends on the allocator's size classes, that is on the length
		for i := 0; i < g.Range(1, 2); i++ {
			pre := Pick(g, []string{"set ", "set x \"", "set comment-begin \"", "set comment-begin '", "\"", "\"\\C-", "$if ", "$include ", "Control-", "\"a\": \"", "\"a\": '", "set isearch-terminators \"", "a: ", ""})
			pad := strings.Repeat(Pick(g, []string{"a", "a", "é", " ", "\\\\"}), g.N(72))
			suf := Pick(g, []string{"\\", "\"\\", "\\\"", "\"", "'", "\":", "\\C-", "\\M-", "\\x", "\\1", "\\e", "", " \\", "\\C-\\"})
			lines = append(lines, pre+pad+suf)
		}
	case 0, 1:
		// dictionary of directive fragments only
		for i := 0; i < g.Range(1, 5); i++ {
			lines = append(lines, Pick(g, rcFragments))
		}
	default:
		lines = g.rcWellFormed(0)
	}
	text := []byte(strings.Join(lines, "\n"))
	if g.P(80) {
		text = append(text, '\n')
	}
	for i := 0; i < g.N(3); i++ {
		text = g.damage(text)
	}
	x.Text = text
	// include graph
	if g.P(50) {
		x.Files = map[string]wire.Bytes{}
		names := []string{"a.rc", "b.rc", "c.rc", "/abs/d.rc"}
		for _, n := range names[:g.Range(1, len(names))] {
			var ls []string
			if g.P(60) {
				ls = append(ls, g.rcWellFormed(2)...)
			}
			// cycles: self-loops, 2- and 3-cycles, diamonds
			for i := 0; i < g.N(3); i++ {
				ls = append(ls, "$include "+Pick(g, names))
			}
			if g.P(30) {
				ls = append(ls, "$include "+n)
			}
			body := []byte(strings.Join(ls, "\n") + "\n")
			if g.P(25) {
				body = g.damage(body)
			}
			x.Files[n] = body
		}
		if g.P(20) {
			x.FailRead = map[string]string{Pick(g, names): Pick(g, []string{"notexist", "eio"})}
		}
	}
	switch g.N(5) {
	case 0:
		x.Chunk = 1
	case 1:
		x.Chunk = g.Range(2, 64)
	}
	if g.P(20) {
		x.ErrAt = g.N(len(x.Text) + 1)
		x.ErrKind = Pick(g, []string{"eio", "unexpected_eof", "data_eof"})
	}
	x.Halt, x.Strict = g.P(30), g.P(30)
	x.App = Pick(g, []string{"", "go", "bash", "myapp"})
	x.Term = Pick(g, []string{"", "xterm", "linux"})
	x.Mode = Pick(g, []string{"", "emacs", "vi"})
	if g.P(3) {
		x.BigLine = Pick(g, []int{65535, 65536, 65537, 1 << 20})
	}
	if g.P(2) {
		x.Nest = Pick(g, []int{100, 10000})
	}
	sc.X = mustJSON(x)
	sc.Env = wire.Env{Mode: "emacs", W: 80, H: 24, Prompt: "> "}
	if x.Entry == "reread" {
		sc.Script = []wire.Token{tok("ab", "self-insert"), tok("\x18\x12", "re-read-init-file"), tok("c", "self-insert"), tok("\r", "accept-line")}
	}
	sc.Plan = wire.Plan{Policy: "canonical", Class: "S0"}
	return sc
}

const includeBound = 60000
const includeBomb = "verif: unbounded include recursion"

type faultyReader struct {
	data  []byte
	pos   int
	chunk int
	errAt int
	kind  string
	fired *int
}

func (r *faultyReader) Read(p []byte) (int, error) {
	if r.errAt >= 0 && r.pos >= r.errAt {
		*r.fired++
		switch r.kind {
		case "eio":
			return 0, errors.New("input/output error")
		default:
			return 0, io.ErrUnexpectedEOF
		}
	}
	if r.pos >= len(r.data) {
		return 0, io.EOF
	}
	n := len(p)
	if r.chunk > 0 && n > r.chunk {
		n = r.chunk
	}
	if n > len(r.data)-r.pos {
		n = len(r.data) - r.pos
	}
	if r.errAt >= 0 && r.pos+n > r.errAt {
		n = r.errAt - r.pos
	}
	copy(p, r.data[r.pos:r.pos+n])
	r.pos += n
	if r.kind == "data_eof" && r.errAt >= 0 && r.pos >= r.errAt {
		*r.fired++
		return n, io.EOF
	}
	return n, nil
}

func (x *c12X) fullText() []byte {
	var sb strings.Builder
	for i := 0; i < x.Nest; i++ {
		sb.WriteString("$if mode=emacs\n")
	}
	sb.Write(x.Text)
	if x.BigLine > 0 {
		sb.WriteString("\n\"a\": \"")
		sb.WriteString(strings.Repeat("m", x.BigLine))
		sb.WriteString("\"\n")
	}
	return []byte(sb.String())
}

func (x *c12X) readFile(counters map[string]int, inputrcPath string, main []byte) func(string) ([]byte, error) {
	return func(name string) ([]byte, error) {
		counters["fs_reads"]++
		if counters["fs_reads"] > includeBound {
			// No acyclic include graph over at most 6 files with at most 4 includes each
			// needs this many reads: the parser is recursing through a cycle without bound.
			// Stop it here (cheaply and deterministically) instead of waiting for the
			// stack to overflow or the watchdog to fire.
			panic(includeBomb)
		}
		if name == inputrcPath {
			return main, nil
		}
		key := name
		if strings.HasPrefix(name, "~/") {
			key = name[2:]
		}
		if k, ok := x.FailRead[key]; ok {
			if k == "eio" {
				counters["fault:fs_eio"]++
				return nil, errors.New("input/output error")
			}
			counters["fault:fs_notexist"]++
			return nil, os.ErrNotExist
		}
		if b, ok := x.Files[key]; ok {
			return b, nil
		}
		// relative to home expansions end with the file name
		for fk, b := range x.Files {
			if strings.HasSuffix(name, "/"+fk) {
				return b, nil
			}
		}
		return nil, os.ErrNotExist
	}
}

func execC12(x *Ctx, sc *wire.Scenario) *wire.Result {
	res := okResult(sc)
	var xx c12X
	jsonInto(sc.X, &xx)
	text := xx.fullText()
	var opts []inputrc.Option
	opts = append(opts, inputrc.WithHaltOnErr(xx.Halt), inputrc.WithStrict(xx.Strict))
	if xx.App != "" {
		opts = append(opts, inputrc.WithApp(xx.App))
	}
	if xx.Term != "" {
		opts = append(opts, inputrc.WithTerm(xx.Term))
	}
	if xx.Mode != "" {
		opts = append(opts, inputrc.WithMode(xx.Mode))
	}
	res.Sessions = 1
	res.Nontrivial = len(text) > 0
	cls := fmt.Sprintf("%s/%d/%v/%v/%d/%d", xx.Entry, len(xx.Files), xx.ErrAt >= 0, xx.Chunk, xx.Nest, xx.BigLine)
	res.SigHash = fmt.Sprintf("%016x", hash2(cls+string(text), uint64(len(text))))
	inputrcPath := x.P.Path("inputrc")
	rf := xx.readFile(res.Counters, inputrcPath, text)

	if xx.Entry == "reread" {
		// the statement's second sentence: re-read-init-file in a live session
		hooks := sim.Hooks{Setup: func(s *sim.Session, sh *readlineShell) {
			sh.Config.ReadFileFunc = rf
		}}
		out := runSession(x, sc, sc.Plan, hooks, false)
		absorb(res, out)
		if out.End == "PANIC" && strings.Contains(out.Panic, includeBomb) {
			violation(res, "RECURSION", "C12.include-terminates", "include-recursion",
				fmt.Sprintf("re-read-init-file: $include recursion did not stop after %d file reads (include cycle)", includeBound))
			return res
		}
		if crashOracle(res, out, "C12") {
			return res
		}
		// The file read back may legitimately rebind any key (Return included, or make it the prefix
		// of a longer sequence), so whether the call returns on the keys typed afterwards is not
		// judged: the session must have survived (crashOracle: returned, or waiting for input).
		if _, _, ok := firstReturn(out); ok {
			res.Counters["reread:returned"]++
		} else {
			res.Counters["reread:still_waiting"]++
		}
		return res
	}

	var perr error
	panicMsg, stack := "", ""
	fired := 0
	func() {
		defer func() {
			if r := recover(); r != nil {
				panicMsg = fmt.Sprint(r)
				stack = string(stackBuf())
			}
		}()
		cfg := inputrc.NewConfig()
		cfg.ReadFileFunc = rf
		switch xx.Entry {
		case "bytes":
			perr = inputrc.ParseBytes(text, cfg, opts...)
		case "userdefault":
			os.Setenv("INPUTRC", inputrcPath)
			perr = inputrc.UserDefault(nil, cfg, opts...)
		default:
			rd := &faultyReader{data: text, chunk: xx.Chunk, errAt: xx.ErrAt, kind: xx.ErrKind, fired: &fired}
			perr = inputrc.Parse(rd, cfg, opts...)
		}
	}()
	if fired > 0 {
		res.Counters["fault:reader_"+xx.ErrKind] += fired
	}
	if perr != nil {
		res.Counters["returned_error"]++
	}
	if panicMsg == includeBomb {
		violation(res, "RECURSION", "C12.include-terminates", "include-recursion",
			fmt.Sprintf("$include recursion did not stop after %d file reads: the include graph has a cycle and the parser follows it without bound", includeBound))
		return res
	}
	if panicMsg != "" {
		violation(res, "PANIC", "C12.no-panic", panicSig(panicMsg, stack),
			fmt.Sprintf("parsing panicked: %s\n%s", panicMsg, trimStack(stack)))
		return res
	}
	if xx.ErrAt >= 0 && xx.Entry == "parse" && fired > 0 && xx.ErrKind != "data_eof" && perr == nil {
		violation(res, "SWALLOWED", "C12.reader-error-reported", "reader-error-swallowed",
			fmt.Sprintf("the reader failed (%s) after %d bytes but Parse returned nil", xx.ErrKind, xx.ErrAt))
	}
	if sc.Index%5000 == 0 {
		t := string(text)
		if len(t) > 300 {
			t = t[:300] + "…"
		}
		res.Sample = map[string]any{"index": sc.Index, "entry": xx.Entry, "text": t, "files": len(xx.Files), "chunk": xx.Chunk, "err_at": xx.ErrAt, "error": fmt.Sprint(perr)}
	}
	return res
}
