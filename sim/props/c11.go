package props

import (
	"fmt"
	"strings"
	"syscall"

	"github.com/reeflective/readline"

	"verifsim/sim"
	"verifsim/wire"
)

// ---------------------------------------------------------------- C11: terminal restored on every way out

func init() {
	register(&Family{ID: "C11", Gen: genC11, Exec: execC11, Budget: budget(3000, 200000)})
}

type c11X struct {
	Exit  string `json:"exit"`
	Shape string `json:"shape"`
	// Warm: tokens of an earlier Readline call of the same shell, after which the application changes
	// the terminal's modes: the call under test must put back what IT found
	Warm int `json:"warm,omitempty"`
}

func genC11(g *Gen, tier string, idx int) *wire.Scenario {
	mode := Pick(g, []string{"emacs", "emacs", "vi"})
	sc := &wire.Scenario{Prop: "C11", Family: "exit"}
	env := wire.Env{Mode: mode, Prompt: Pick(g, []string{"> ", "$ ", "", "two\nlines> ", "\x1b[31mred\x1b[0m "})}
	env.W = Pick(g, []int{12, 20, 40, 80, 132})
	env.H = g.Range(6, 40)
	env.StartRow = g.N(env.H)
	lf := uint32(0)
	for _, b := range []uint32{syscall.ECHO, syscall.ICANON, syscall.ISIG, syscall.IEXTEN, syscall.ECHOE, syscall.ECHOK} {
		if g.P(70) {
			lf |= b
		}
	}
	ifl := uint32(0)
	for _, b := range []uint32{syscall.ICRNL, syscall.IXON, syscall.BRKINT, syscall.IUTF8} {
		if g.P(60) {
			ifl |= b
		}
	}
	env.Termios = &wire.TermiosSpec{Lflag: lf, Iflag: ifl, Vmin: uint8(g.Range(0, 3)), Vtime: uint8(g.N(3))}
	env.Comp = g.compSpec(g.Range(2, 8), false)
	env.Comp.PrefixOnly = false
	h := wire.HistSrc{Kind: "memory", Name: "h0", Entries: []string{"hist one", "hist two words"}}
	env.History = []wire.HistSrc{h}
	env.NoDefaultHistory = true
	env.PanicCmd = true
	if g.P(25) {
		env.Inputrc = append(env.Inputrc, "set prompt-transient on")
		if g.P(60) {
			env.TransientPrompt = Pick(g, []string{"% ", ">> "})
		}
	}
	if idx%6 == 2 {
		// the editing mode shown in the prompt, with the usual idiom of a cursor shape per mode
		env.Inputrc = append(env.Inputrc, "set show-mode-in-prompt on", "set vi-ins-mode-string \"\\1\\e[6 q\\2\"", "set vi-cmd-mode-string \"\\1\\e[2 q\\2\"",
			"set emacs-mode-string \"\\1\\e[5 q\\2@\"")
		if g.P(60) {
			// ... and a transient prompt, printed when the line is accepted
			env.Inputrc = append(env.Inputrc, "set prompt-transient on")
			env.TransientPrompt = Pick(g, []string{"% ", ">> "})
		}
	}
	env.Binds = append([]wire.BindSpec(nil), g.Cat.Extra...)
	km := "emacs"
	if mode == "vi" {
		km = "vi-insert"
	}
	env.Binds = append(env.Binds, wire.BindSpec{Keymap: km, Seq: wire.Bytes("\x1dp"), Action: "verif-panic"},
		wire.BindSpec{Keymap: "vi-command", Seq: wire.Bytes("\x1dp"), Action: "verif-panic"})
	x := c11X{}
	// buffer shape
	x.Shape = Pick(g, []string{"empty", "short", "wrapped", "multiline", "exact", "menu", "isearch", "vi-command", "vi-visual", "vi-opp", "hint", "long-menu"})
	typ := func(s string) {
		for _, r := range s {
			sc.Script = append(sc.Script, tok(string(r), "self-insert"))
		}
	}
	pw := len(env.Prompt)
	if i := strings.LastIndex(env.Prompt, "\n"); i >= 0 {
		pw = len(env.Prompt) - i - 1
	}
	if strings.Contains(env.Prompt, "\x1b") {
		pw = 4
	}
	switch x.Shape {
	case "empty":
	case "short":
		typ(g.word(false, 6))
	case "wrapped":
		typ(strings.Repeat("w", env.W*g.Range(1, 2)+g.Range(1, 5)))
	case "exact":
		typ(strings.Repeat("e", env.W-pw))
	case "multiline":
		env.Multiline = "backslash"
		typ("ab\\")
		sc.Script = append(sc.Script, tok("\r", "accept-line"))
		typ("cd")
		if g.P(50) {
			typ("\\")
			sc.Script = append(sc.Script, tok("\r", "accept-line"))
			typ("ef")
		}
	case "menu":
		typ("x ")
		sc.Script = append(sc.Script, tok("\t", "complete"), tok("\t", "menu-complete"))
	case "long-menu":
		// more candidates than there are rows below the line (the menu is cropped), the selection moved
		// to the far end of the list
		env.Comp = &wire.CompSpec{}
		for i := 0; i < g.Range(env.H, 3*env.H+40); i++ {
			env.Comp.Cands = append(env.Comp.Cands, wire.Cand{Value: fmt.Sprintf("cand%04d", i), Desc: "the description of candidate number " + fmt.Sprint(i) + " is a long one"})
		}
		env.StartRow = g.N(env.H/3 + 1) // room below the line for part of the list
		typ("c")
		if mode == "vi" {
			sc.Script = append(sc.Script, tok("\t", "menu-complete"))
		} else {
			sc.Script = append(sc.Script, tok(Pick(g, []string{"\x1b?", "\t"}), "possible-completions"))
		}
		for i := 0; i < g.Range(1, 3); i++ {
			sc.Script = append(sc.Script, tok(Pick(g, []string{"\x1b[Z", "\x1b[Z", "\t"}), "menu-key"))
		}
	case "isearch":
		typ("q")
		sc.Script = append(sc.Script, tok("\x12", "reverse-search-history"), tok("h", "isearch-char"))
	case "vi-command", "vi-visual", "vi-opp":
		if mode != "vi" {
			x.Shape = "short"
		}
		typ("some words here")
		if mode == "vi" {
			sc.Script = append(sc.Script, tok("\x1b", "vi-movement-mode"))
			km = "vi-command"
			switch x.Shape {
			case "vi-visual":
				sc.Script = append(sc.Script, tok("v", "vi-visual-mode"), tok("b", "vi-prev-word"))
			case "vi-opp":
				sc.Script = append(sc.Script, tok("d", "vi-delete-to"))
			}
		}
	case "hint":
		typ("hi")
		sc.Script = append(sc.Script, tok("\x1b3", "digit-argument"))
		if mode == "vi" {
			sc.Script = sc.Script[:len(sc.Script)-1]
		}
	}
	exits := []string{"accept-line", "accept-line", "abort", "ctrl-g", "eof-key", "insert-comment", "insert-comment-arg", "edit-and-execute",
		"operate-and-get-next", "panic", "eof-main", "eio-main", "eof-cursor", "resize-then-accept", "accept-and-hold"}
	if x.Shape == "empty" {
		exits = append(exits, "eof-key", "eof-key")
	}
	x.Exit = Pick(g, exits)
	nread := len(sc.Script) + 1
	add := func(cmd string) {
		if seq := g.Cat.ShortSeqFor(km, cmd); seq != "" {
			sc.Script = append(sc.Script, tok(seq, cmd))
		}
	}
	switch x.Exit {
	case "accept-line":
		sc.Script = append(sc.Script, tok("\r", "accept-line"))
	case "abort":
		sc.Script = append(sc.Script, tok("\x03", "abort"))
	case "ctrl-g":
		sc.Script = append(sc.Script, tok("\x07", "abort"), tok("\x03", "abort"))
	case "eof-key":
		sc.Script = append(sc.Script, tok("\x04", "end-of-file"), tok("\x03", "abort"))
	case "insert-comment":
		add("insert-comment")
	case "insert-comment-arg":
		if km == "emacs" {
			sc.Script = append(sc.Script, tok("\x1b2", "digit-argument"))
		}
		add("insert-comment")
	case "edit-and-execute":
		// no editor available: must NOT leave; then leave by Return
		add("edit-and-execute-command")
		sc.Script = append(sc.Script, tok("\r", "accept-line"))
	case "operate-and-get-next":
		add("operate-and-get-next")
	case "accept-and-hold":
		add("accept-and-hold")
	case "panic":
		sc.Script = append(sc.Script, tok("\x1dp", "verif-panic"))
	case "eof-main":
		sc.Plan.Faults = []wire.Fault{{Kind: "eof", ReadKind: "main", Nth: nread}}
	case "eio-main":
		sc.Plan.Faults = []wire.Fault{{Kind: "eio", ReadKind: "main", Nth: nread}}
	case "eof-cursor":
		sc.Plan.Faults = []wire.Fault{{Kind: "eof", ReadKind: "cursor", Nth: nread}}
		sc.Script = append(sc.Script, tok("\r", "accept-line"))
	case "resize-then-accept":
		sc.Plan.Disturb = []wire.Disturb{{Kind: Pick(g, []string{"resize", "resize", "sigwinch", "printf"}), Task: "main", Site: "inputwait", Nth: nread, W: env.W, H: env.H}}
		sc.Script = append(sc.Script, tok("\r", "accept-line"))
		if g.P(75) {
			// Return is typed while the watcher's (or the Printf caller's) redisplay still waits for its cursor
			// report: that redisplay ends after Readline has returned, and must leave the terminal as the call left it
			sc.Plan.TypeWithReport = 1
			sc.Plan.Policy, sc.Plan.Seed = "seeded", g.Seed()
			sc.Plan.Sites = g.siteSubset(Pick(g, []int{70, 100}))
		}
	}
	sc.Env = env
	if g.P(20) && len(sc.Plan.Faults) == 0 && len(sc.Plan.Disturb) == 0 {
		warm := []wire.Token{tok("w", "self-insert"), tok("\r", "accept-line")}
		if seq := g.Cat.ShortSeqFor(km, "accept-and-hold"); seq != "" && km != "vi-command" && g.P(40) {
			// the earlier call was left with accept-and-hold: this one starts with that line in the buffer
			warm[1] = tok(seq, "accept-and-hold")
		}
		sc.Script = append(warm, sc.Script...)
		x.Warm = len(warm)
	}
	sc.X = mustJSON(x)
	if sc.Plan.Policy == "" {
		sc.Plan.Policy = "canonical"
	}
	sc.Plan.Class = "S0"
	if len(sc.Plan.Faults) > 0 {
		sc.Plan.Class = "S3"
	}
	return sc
}

func termiosEqual(a, b *syscall.Termios) (bool, string) {
	if a == nil || b == nil {
		return false, "termios unreadable"
	}
	var diffs []string
	if a.Iflag != b.Iflag {
		diffs = append(diffs, fmt.Sprintf("c_iflag %#o -> %#o", a.Iflag, b.Iflag))
	}
	if a.Oflag != b.Oflag {
		diffs = append(diffs, fmt.Sprintf("c_oflag %#o -> %#o", a.Oflag, b.Oflag))
	}
	if a.Cflag != b.Cflag {
		diffs = append(diffs, fmt.Sprintf("c_cflag %#o -> %#o", a.Cflag, b.Cflag))
	}
	if a.Lflag != b.Lflag {
		diffs = append(diffs, fmt.Sprintf("c_lflag %#o -> %#o", a.Lflag, b.Lflag))
	}
	if a.Cc != b.Cc {
		diffs = append(diffs, fmt.Sprintf("c_cc %v -> %v", a.Cc[:8], b.Cc[:8]))
	}
	return len(diffs) == 0, strings.Join(diffs, ", ")
}

func execC11(x *Ctx, sc *wire.Scenario) *wire.Result {
	res := okResult(sc)
	var xx c11X
	jsonInto(sc.X, &xx)
	hooks := sim.Hooks{Setup: func(s *sim.Session, sh *readline.Shell) {
		sh.Keymap.Register(map[string]func(){"verif-panic": func() { panic("verif: user command panics") }})
	}}
	var between *syscall.Termios
	if xx.Warm > 0 {
		hooks.Body = func(s *sim.Session, sh *readline.Shell) {
			s.Readline(sh)
			if t, err := x.P.Termios(); err == nil {
				t.Lflag ^= syscall.ECHOCTL
				t.Iflag ^= syscall.IXON
				t.Cc[syscall.VERASE] = 8
				if x.P.SetTermios(t) == nil {
					between, _ = x.P.Termios()
				}
			}
			s.Readline(sh)
		}
	}
	out := runSession(x, sc, sc.Plan, hooks, true)
	absorb(res, out)
	res.Nontrivial = true
	if xx.Warm > 0 {
		if between == nil || len(out.Returns) == 0 {
			res.Counters["skipped:warm_up_call"]++
			return res
		}
		out.TermiosBefore = between
		out.Returns = out.Returns[1:]
	}
	userPanic := out.End == "PANIC" && strings.Contains(out.Panic, "verif: user command panics")
	if out.End == "PANIC" && !userPanic {
		res.Counters["skipped:crash"]++
		return res
	}
	if out.End == "DEADLOCK" || out.End == "LIVELOCK" || out.End == "LIVELOCK_EOF" || out.End == "BUDGET" {
		res.Counters["skipped:"+strings.ToLower(out.End)]++
		return res
	}
	returned := len(out.Returns) > 0
	if !returned && !userPanic {
		res.Counters["no_exit:"+xx.Exit]++
		return res // still waiting (e.g. edit-and-execute failure keeps the call alive): nothing to restore yet
	}
	how := xx.Exit
	if userPanic {
		how = "panic in a bound command"
	} else if out.Returns[0].Err != "" {
		how += " (returned error " + out.Returns[0].Err + ")"
	}
	cls := xx.Exit
	// (1) termios, observed in the kernel
	if ok, diff := termiosEqual(out.TermiosBefore, out.TermiosAfter); !ok {
		return violation(res, "TERMINAL", "C11.termios-restored", "termios:"+cls, fmt.Sprintf("after %s the terminal modes differ from before the call: %s", how, diff))
	}
	t := out.Final
	// (3) cursor style reset
	if t.StyleSeqs > 0 && t.CursorStyle != "0" && t.CursorStyle != "" {
		return violation(res, "TERMINAL", "C11.cursor-style-reset", "cursor-style:"+cls,
			fmt.Sprintf("after %s the last cursor-style sequence is CSI %s SP q, not the default (CSI 0 SP q)", how, t.CursorStyle))
	}
	// (4) cursor visible
	if !t.Visible {
		return violation(res, "TERMINAL", "C11.cursor-visible", "cursor-hidden:"+cls, fmt.Sprintf("after %s the terminal cursor is left hidden", how))
	}
	// (2) cursor at the start of a fresh row below the input
	transient := false
	for _, l := range sc.Env.Inputrc {
		if strings.Contains(l, "prompt-transient on") {
			transient = true
		}
	}
	if transient || out.Extra["resized"] == true {
		return res
	}
	var last *sim.Snap
	for i := range out.Waits {
		if out.Waits[i].Kind == "main" {
			last = &out.Waits[i]
		}
	}
	if last == nil || last.Screen == nil || t.Unknown > 0 {
		return res
	}
	line := ""
	if returned {
		line = out.Returns[0].Line
	} else {
		line = last.Line
	}
	if strings.ContainsAny(line, "\t") {
		return res
	}
	anchorRow := last.AnchorAbsRow - t.Scrolled
	if out.FinalSnap != nil && out.FinalSnap.Queries > last.Queries {
		anchorRow = out.FinalSnap.AnchorAbsRow - t.Scrolled
	}
	if anchorRow < 0 {
		return res
	}
	anchorCol := last.ReportCol - 1
	l := refLayout([]rune(line), len([]rune(line)), anchorRow, anchorCol, t.W)
	textLast := l.lastRow
	if l.exact {
		textLast = l.lastRow - 1
	}
	cr, cc, _ := t.Cursor()
	// the shape as it actually is (the generator's label does not survive minimisation)
	xx.Shape = shapeClass([]rune(line), anchorCol, t.W)
	if line == "" {
		xx.Shape = "empty"
	}
	if userPanic {
		xx.Shape = "any"
	}
	ctx := fmt.Sprintf("after %s with buffer %q (shape %s): terminal cursor at (%d,%d), input occupies rows %d..%d; screen %q", how, line, xx.Shape, cr, cc, anchorRow, textLast, t.Dump())
	if userPanic && (cc != 0 || (cr <= textLast && textLast < t.H-1)) {
		// one defect, whichever coordinate shows it (with an empty prompt the column happens to be 0)
		return violation(res, "TERMINAL", "C11.cursor-on-fresh-row", "cursor-left-inside-the-input-area:panic", "cursor not on a fresh row "+ctx)
	}
	if sc.Plan.TypeWithReport > 0 && len(sc.Plan.Disturb) > 0 && (cc != 0 || (cr <= textLast && textLast < t.H-1) || !t.RowBlank(cr)) {
		// Return was typed while the redisplay of a resize or Printf was waiting for its cursor report: that redisplay
		// goes on after Readline has returned and paints the line again on the fresh row (one defect, the listed root
		// cause of C20 -- redisplays are not synchronised with the main loop -- seen at the way out)
		return violation(res, "TERMINAL", "C11.cursor-on-fresh-row", "redisplay-of-a-resize-or-printf-ends-after-the-return", "the terminal is written to after the return: "+ctx)
	}
	if cc != 0 {
		return violation(res, "TERMINAL", "C11.cursor-on-fresh-row", "cursor-col:"+cls+":"+xx.Shape, "cursor not in column 0 "+ctx)
	}
	if cr <= textLast && textLast < t.H-1 {
		return violation(res, "TERMINAL", "C11.cursor-on-fresh-row", "cursor-row:"+cls+":"+xx.Shape, "cursor not below the input "+ctx)
	}
	if !t.RowBlank(cr) {
		return violation(res, "TERMINAL", "C11.cursor-on-fresh-row", "row-not-fresh:"+cls+":"+xx.Shape, "the cursor's row is not blank "+ctx)
	}
	// Not demanded: that nothing is left between the input and the cursor's row. With a cropped completion
	// menu open at accept-line the unchanged tree leaves rows of it there (and an interrupt echoes ^C, which
	// may wrap onto a row of its own); the statement asks for a fresh row below the input, which this is.
	if sc.Index%300 == 0 {
		res.Sample = sample(sc, map[string]any{"exit": xx.Exit, "shape": xx.Shape, "returns": out.Returns, "screen": t.Dump()})
	}
	return res
}
