package props

import (
	"fmt"
	"strings"

	"verifsim/emu"
	"verifsim/sim"
	"verifsim/wire"
)

// ---------------------------------------------------------------- C04: the screen shows the buffer

func init() {
	register(&Family{ID: "C04", Gen: genC04, Exec: execC04, Budget: budget(5000, 500000)})
}

type cellPos struct{ r, c int }

// layoutRef is the reference layout of a buffer on a terminal of width w,
// starting at the anchor cell (where the prompt ends).
type layoutRef struct {
	cells     map[cellPos]string
	rowEnd    map[int]int // row -> first column after the last glyph of the buffer on that row
	rowFrom   map[int]int // row -> first judged column of that row
	cursor    cellPos
	cursorAlt *cellPos // also accepted: cursor index points at a zero-width rune
	lastRow   int
	exact     bool // text ended exactly at the right margin
}

func refLayout(buf []rune, pos, anchorRow, anchorCol, w int) *layoutRef {
	l := &layoutRef{cells: map[cellPos]string{}, rowEnd: map[int]int{}, rowFrom: map[int]int{}}
	row, col := anchorRow, anchorCol
	l.rowFrom[row] = anchorCol
	l.rowEnd[row] = anchorCol
	var last cellPos
	haveLast := false
	norm := func(r, c int) cellPos {
		if c >= w {
			return cellPos{r + 1, 0}
		}
		return cellPos{r, c}
	}
	for i, r := range buf {
		if r == '\n' {
			if i == pos {
				l.cursor = norm(row, col)
			}
			row++
			col = anchorCol
			l.rowFrom[row] = anchorCol
			l.rowEnd[row] = anchorCol
			haveLast = false
			continue
		}
		wd := emu.RuneWidth(r)
		if wd == 0 {
			if haveLast {
				l.cells[last] += string(r)
			}
			if i == pos && haveLast {
				// the cursor index points at a combining mark: the cell of its base
				// glyph and the cell after it are both accepted
				l.cursor = last
				alt := norm(row, col)
				l.cursorAlt = &alt
			}
			continue
		}
		if col+wd > w {
			row++
			col = 0
			l.rowFrom[row] = 0
			l.rowEnd[row] = 0
		}
		if i == pos {
			l.cursor = cellPos{row, col}
		}
		last = cellPos{row, col}
		haveLast = true
		l.cells[last] = string(r)
		col += wd
		l.rowEnd[row] = col
	}
	if pos >= len(buf) {
		l.cursor = norm(row, col)
	}
	l.lastRow = row
	if col >= w {
		l.exact = true
		l.lastRow = row + 1
		l.rowFrom[row+1] = 0
		l.rowEnd[row+1] = 0
	}
	return l
}

// shapeClass names the buffer shape for signatures.
func shapeClass(buf []rune, anchorCol, w int) string {
	var parts []string
	wide, comb, tab, nl := false, false, false, false
	cols := anchorCol
	for _, r := range buf {
		switch {
		case r == '\n':
			nl = true
		case r == '\t':
			tab = true
		case emu.RuneWidth(r) == 2:
			wide = true
		case emu.RuneWidth(r) == 0:
			comb = true
		}
		cols += emu.RuneWidth(r)
	}
	// One class per frame, by the feature that dominates how the engine lays the buffer out
	// (the classes name the shapes that known findings are about; listing every combination
	// of features would never be complete).
	switch {
	case tab:
		parts = append(parts, "tab")
	case nl:
		parts = append(parts, "multiline")
	case comb:
		parts = append(parts, "combining")
	case wide:
		parts = append(parts, "wide")
	default:
		parts = append(parts, "ascii")
	}
	if !nl && !tab {
		switch {
		case w > 0 && cols%w == 0 && cols > 0:
			parts = append(parts, "exact-fill")
		case cols > w:
			parts = append(parts, "wrapped")
		default:
			parts = append(parts, "1row")
		}
	}
	if anchorCol == 0 {
		parts = append(parts, "no-prompt")
	}
	return strings.Join(parts, "+")
}

// judgeFrame checks one painted frame against the reference layout.
func judgeFrame(w *sim.Snap) (rule, sig, msg string) {
	t := w.Screen
	if t == nil || w.Queries == 0 {
		return "", "", ""
	}
	buf := []rune(w.Line)
	for _, r := range buf {
		if (r < 0x20 && r != '\n' && r != '\t') || r == 0x7f || r == 0xfffd {
			return "unjudged", "", ""
		}
	}
	anchorRow := w.AnchorAbsRow - t.Scrolled
	anchorCol := w.ReportCol - 1
	if w.ReportWrap {
		// the prompt filled its row exactly: the terminal answered with the last column while
		// in pending-wrap state; the next glyph goes to column 0 of the next row
		anchorRow, anchorCol = anchorRow+1, 0
	}
	// a zero-width rune without a base glyph (start of buffer or of a line) has no cell of its own
	for i, r := range buf {
		if emu.RuneWidth(r) == 0 && (i == 0 || buf[i-1] == '\n') {
			return "unjudged", "", ""
		}
	}
	if anchorRow < 0 {
		return "unjudged", "", "" // the start of the input area scrolled off the screen
	}
	shape := shapeClass(buf, anchorCol, t.W)
	hasTab := strings.ContainsRune(w.Line, '\t')
	if hasTab {
		// order-only rule: the non-blank glyphs of the input area, in reading order,
		// are the non-blank runes of the buffer (first row from the anchor on)
		var want []string
		for _, r := range buf {
			if r != ' ' && r != '\t' && r != '\n' && emu.RuneWidth(r) > 0 {
				want = append(want, string(r))
			} else if emu.RuneWidth(r) == 0 && len(want) > 0 {
				want[len(want)-1] += string(r)
			}
		}
		var got []string
		nrows := strings.Count(w.Line, "\n") + 1 + (len(buf)+anchorCol+5*strings.Count(w.Line, "\t"))/t.W
		for r := anchorRow; r < t.H && r <= anchorRow+nrows; r++ {
			from := 0
			if r == anchorRow {
				from = anchorCol
			}
			for c := from; c < t.W; c++ {
				cell := t.Rows[r][c]
				if cell.S != "" && cell.S != " " {
					got = append(got, cell.S)
				}
			}
		}
		// compare as a prefix: rows below may hold hints; continuation markers may precede
		gi := 0
		for _, g := range got {
			if gi < len(want) && g == want[gi] {
				gi++
			}
		}
		if gi < len(want) {
			return "C04.glyph-order", "layout:order:" + shape, fmt.Sprintf("buffer %q: glyph %q (non-blank rune #%d) is not on the screen in order; screen %q", w.Line, want[gi], gi, t.Dump())
		}
		return "ok", "", ""
	}
	l := refLayout(buf, w.Pos, anchorRow, anchorCol, t.W)
	if l.lastRow >= t.H {
		return "unjudged", "", ""
	}
	ctx := func() string {
		return fmt.Sprintf("buffer %q cursor %d, terminal %dx%d, input area starts at row %d col %d; screen rows %d..%d: %q",
			w.Line, w.Pos, t.W, t.H, anchorRow, anchorCol, anchorRow, l.lastRow, t.Dump()[anchorRow:l.lastRow+1])
	}
	for r := anchorRow; r <= l.lastRow; r++ {
		if r > anchorRow && l.rowFrom[r] > 2 {
			// the row of a buffer line after a newline: left of where its text starts there is the
			// marker of the line (column sign, line number, secondary prompt) in the first two
			// cells and nothing else
			for c := 2; c < l.rowFrom[r] && c < t.W; c++ {
				if cell := t.Rows[r][c]; !cell.Blank() {
					return "C04.no-remnants", "layout:remnant-in-indent:" + shape, fmt.Sprintf("cell (%d,%d) in the indent of a continuation line shows %q (remnant of earlier content); %s", r, c, cell.S, ctx())
				}
			}
		}
		for c := l.rowFrom[r]; c < t.W; c++ {
			cell := t.Rows[r][c]
			want, covered := l.cells[cellPos{r, c}]
			switch {
			case covered:
				if cell.S != want {
					return "C04.text-cells", "layout:text:" + shape, fmt.Sprintf("cell (%d,%d) shows %q, the buffer has %q there; %s", r, c, cell.S, want, ctx())
				}
				if emu.RuneWidth([]rune(want)[0]) == 2 {
					c++
				}
			case c >= l.rowEnd[r]:
				if !cell.Blank() {
					return "C04.no-remnants", "layout:remnant:" + shape, fmt.Sprintf("cell (%d,%d) after the end of the text shows %q (remnant of earlier content); %s", r, c, cell.S, ctx())
				}
			}
		}
	}
	cr, cc, wrap := t.Cursor()
	if wrap {
		return "C04.cursor-cell", "layout:cursor-pending-wrap:" + shape, fmt.Sprintf("terminal cursor is left in pending-wrap state on (%d,%d), expected on (%d,%d); %s", cr, cc, l.cursor.r, l.cursor.c, ctx())
	}
	if l.cursorAlt != nil && cr == l.cursorAlt.r && cc == l.cursorAlt.c {
		return "ok", "", ""
	}
	if cr != l.cursor.r || cc != l.cursor.c {
		return "C04.cursor-cell", "layout:cursor:" + shape, fmt.Sprintf("terminal cursor on (%d,%d), the buffer's cursor position is cell (%d,%d); %s", cr, cc, l.cursor.r, l.cursor.c, ctx())
	}
	if !t.Visible {
		return "C04.cursor-cell", "layout:cursor-hidden:" + shape, "terminal cursor left hidden at an input wait; " + ctx()
	}
	return "ok", "", ""
}

func (g *Gen) paintLine(w int, promptW int) string {
	switch g.N(7) {
	case 0: // around multiples of the width
		k := g.Range(1, 3)
		n := k*w - promptW + g.Range(-2, 2)
		if n < 0 {
			n = g.Range(0, 5)
		}
		if n > 400 {
			n = 400
		}
		var sb strings.Builder
		for i := 0; i < n; i++ {
			sb.WriteByte("abcdefghij"[i%10])
		}
		return sb.String()
	case 1: // wide characters
		var sb strings.Builder
		for i := 0; i < g.Range(1, w); i++ {
			if g.P(60) {
				sb.WriteRune(Pick(g, wideText))
			} else {
				sb.WriteByte("xyz "[g.N(4)])
			}
		}
		return sb.String()
	case 2: // combining marks
		var sb strings.Builder
		for i := 0; i < g.Range(1, 12); i++ {
			sb.WriteByte("aeou"[g.N(4)])
			if g.P(50) {
				sb.WriteRune(Pick(g, combiningText))
			}
		}
		return sb.String()
	case 3:
		return g.word(false, 6) + "\n" + g.word(false, 6) + "\n\n" + g.word(false, 3)
	case 4:
		return g.word(false, 3) + "\t" + g.word(false, 3) + "\tx"
	default:
		return g.histLine(g.P(30))
	}
}

type c04X struct {
	IdleW int `json:"idle_w,omitempty"` // the terminal gets this width between the first and the second Readline call
	Calls int `json:"calls,omitempty"`  // Readline calls on the one Shell (no resize between them)
}

// genC04TypeAheadThenNewPrompt: a whole line and Return typed ahead (the bytes reach whatever read is open, the
// cursor-position query's included), then a second call on the same Shell whose prompt has another width, typed
// slowly: what the first call left in the terminal's queue or in the library must not move the second one's cursor.
func genC04TypeAheadThenNewPrompt(g *Gen) *wire.Scenario {
	sc := &wire.Scenario{Prop: "C04", Family: "paint-typeahead-two-calls"}
	env := wire.Env{Mode: "emacs", Prompt: Pick(g, []string{"~ $ ", "> "}), PromptLater: Pick(g, []string{"/srv/www $ ", "a-much-longer-prompt> ", "$ "}), W: 80, H: g.Range(10, 30), NoDefaultHistory: true}
	env.Inputrc = []string{"set history-autosuggest off", "set autocomplete off"}
	sc.Env = env
	first := ""
	for i := 0; i < g.Range(2, 8); i++ {
		first += string("abc d"[g.N(5)])
	}
	// one token: the line and its Return arrive together, whichever read is open
	sc.Script = append(sc.Script, tok(first+"\r", "typed-ahead-line"))
	for i := 0; i < g.Range(1, 6); i++ {
		sc.Script = append(sc.Script, tok(string("xyz w"[g.N(5)]), "self-insert"))
	}
	sc.X = mustJSON(c04X{Calls: 2})
	sc.Plan = wire.Plan{Policy: "seeded", Class: "S2", Seed: g.Seed()}
	for i := 0; i < 7; i++ {
		sc.Plans = append(sc.Plans, wire.Plan{Policy: "seeded", Class: "S2", Seed: g.Seed()})
	}
	return sc
}

// genC04TwoCalls: a line accepted, the terminal resized while the application is busy elsewhere (no call
// active, nobody listening for the signal), then a second call on the same Shell that has to lay its buffer
// out for the width the terminal has now.
func genC04TwoCalls(g *Gen) *wire.Scenario {
	sc := &wire.Scenario{Prop: "C04", Family: "paint-two-calls"}
	env := wire.Env{Mode: Pick(g, []string{"emacs", "vi"}), Prompt: Pick(g, []string{"> ", "$ ", "prompt> "}), W: Pick(g, []int{30, 40, 80, 100}), H: g.Range(10, 30), NoDefaultHistory: true}
	env.StartRow = g.N(env.H / 2)
	env.Inputrc = []string{"set history-autosuggest off", "set autocomplete off"}
	sc.Env = env
	for i := 0; i < g.Range(1, 5); i++ {
		sc.Script = append(sc.Script, tok(string("abc d"[g.N(5)]), "self-insert"))
	}
	sc.Script = append(sc.Script, tok("\r", "accept-line"))
	w2 := Pick(g, []int{20, 25, 60, 120, 132})
	if w2 == env.W {
		w2 += 7
	}
	lo := min(env.W, w2)
	for j := 0; j < lo+g.Range(-3, 12); j++ {
		sc.Script = append(sc.Script, tok(string("0123456789"[j%10]), "self-insert"))
	}
	if env.Mode == "emacs" {
		for i := 0; i < g.N(4); i++ {
			cmd := Pick(g, []string{"backward-char", "beginning-of-line", "end-of-line", "backward-delete-char"})
			if seq := g.Cat.ShortSeqFor("emacs", cmd); seq != "" {
				sc.Script = append(sc.Script, tok(seq, cmd))
			}
		}
	}
	sc.X = mustJSON(c04X{IdleW: w2})
	sc.Plan = wire.Plan{Policy: "canonical", Class: "S0"}
	return sc
}

func genC04(g *Gen, tier string, idx int) *wire.Scenario {
	if idx%25 == 11 {
		return genC04TwoCalls(g)
	}
	if idx%25 == 21 {
		return genC04TypeAheadThenNewPrompt(g)
	}
	mode := Pick(g, []string{"emacs", "emacs", "vi"})
	sc := &wire.Scenario{Prop: "C04", Family: "paint"}
	env := wire.Env{Mode: mode}
	switch g.N(3) {
	case 0:
		env.W = g.Range(8, 20)
	case 1:
		env.W = g.Range(21, 60)
	default:
		env.W = g.Range(61, 200)
	}
	env.H = g.Range(4, 40)
	env.StartRow = g.N(env.H)
	if g.P(25) {
		env.StartRow = env.H - 1
	}
	pw := 0
	switch g.N(6) {
	case 0:
		env.Prompt = ""
	case 1:
		env.Prompt = "$ "
		pw = 2
	case 2:
		env.Prompt = "\x1b[1;32mgreen\x1b[0m> "
		pw = 7
	case 3:
		env.Prompt = "日本> "
		pw = 6
	case 4:
		env.Prompt = "first line\nsecond> "
		pw = 8
	default:
		pw = g.N(env.W)
		env.Prompt = strings.Repeat("p", pw)
	}
	h := wire.HistSrc{Kind: "memory", Name: "h0"}
	for i := 0; i < g.Range(1, 5); i++ {
		h.Entries = append(h.Entries, g.paintLine(env.W, pw))
	}
	env.History = []wire.HistSrc{h}
	env.NoDefaultHistory = true
	if g.P(40) {
		env.Multiline = "backslash"
	}
	env.Inputrc = append(env.Inputrc, "set history-autosuggest off", "set autocomplete off")
	if g.P(20) {
		env.Inputrc = append(env.Inputrc, "set multiline-column-numbered on")
	}
	env.Binds = g.Cat.Extra
	sc.Env = env
	km := "emacs"
	if mode == "vi" {
		km = "vi-insert"
	}
	edits := []string{"backward-delete-char", "delete-char", "kill-line", "backward-kill-word", "unix-line-discard", "transpose-chars",
		"kill-word", "yank", "undo", "kill-whole-line", "backward-kill-line"}
	moves := []string{"beginning-of-line", "end-of-line", "backward-char", "forward-char", "backward-word", "forward-word",
		"previous-history", "next-history", "previous-history"}
	n := g.Range(3, 18)
	for i := 0; i < n; i++ {
		switch g.N(11) {
		case 10:
			// commands that put a message in the hint area below the input, for one redisplay or more:
			// keyboard macro recording, a numeric argument, re-reading the init file
			if mode == "vi" {
				sc.Script = append(sc.Script, tok("\x1b", "vi-movement-mode"), tok("q", "macro-toggle-record"), tok("a", "register"))
				for j := 0; j < g.N(3); j++ {
					sc.Script = append(sc.Script, tok(Pick(g, []string{"h", "l", "0", "$"}), "vi-move"))
				}
				sc.Script = append(sc.Script, tok("q", "macro-toggle-record"))
				if g.P(50) {
					sc.Script = append(sc.Script, tok("@", "macro-run"), tok("a", "register"))
				}
				sc.Script = append(sc.Script, tok("i", "vi-insertion-mode"))
			} else {
				switch g.N(5) {
				case 4:
					// two sections at once: the persistent one (macro being recorded) and a message below it
					sc.Script = append(sc.Script, tok("\x18(", "start-kbd-macro"))
					switch g.N(3) {
					case 0:
						sc.Script = append(sc.Script, tok("\x12", "reverse-search-history"), tok("a", "isearch-char"), tok("\x07", "abort"))
					case 1:
						sc.Script = append(sc.Script, tok("\x18\x12", "re-read-init-file"), tok("b", "self-insert"))
					default:
						sc.Script = append(sc.Script, tok("\x1b2", "digit-argument"), tok("c", "self-insert"))
					}
					sc.Script = append(sc.Script, tok("\x18)", "end-kbd-macro"))
				case 0:
					sc.Script = append(sc.Script, tok("\x18(", "start-kbd-macro"), tok("a", "self-insert"), tok("\x18)", "end-kbd-macro"))
				case 1:
					sc.Script = append(sc.Script, tok("\x1b3", "digit-argument"), tok("x", "self-insert"))
				case 2:
					sc.Script = append(sc.Script, tok("\x18\x12", "re-read-init-file"))
				default:
					sc.Script = append(sc.Script, tok("\x18\x12", "re-read-init-file"), tok(g.Cat.ShortSeqFor(km, "backward-char"), "backward-char"))
				}
			}
		case 0, 1, 2:
			for j := 0; j < g.Range(1, 8); j++ {
				sc.Script = append(sc.Script, tok(string("abcdefg hij.k"[g.N(13)]), "self-insert"))
			}
		case 3:
			// a run that crosses the right margin
			for j := 0; j < g.Range(env.W/2, env.W+3) && j < 120; j++ {
				sc.Script = append(sc.Script, tok(string("0123456789"[j%10]), "self-insert"))
			}
		case 4, 5:
			cmd := Pick(g, edits)
			if seq := g.Cat.ShortSeqFor(km, cmd); seq != "" {
				sc.Script = append(sc.Script, tok(seq, cmd))
			}
		case 6:
			if env.Multiline != "" {
				sc.Script = append(sc.Script, tok("\\", "self-insert"), tok("\r", "accept-line"))
			}
		default:
			cmd := Pick(g, moves)
			if seq := g.Cat.ShortSeqFor(km, cmd); seq != "" {
				sc.Script = append(sc.Script, tok(seq, cmd))
			}
		}
	}
	sc.Plan = wire.Plan{Policy: "canonical", Class: "S0"}
	if idx%3 == 2 {
		sc.Plan = wire.Plan{Policy: "seeded", Class: "S1", Seed: g.Seed()}
	}
	if idx%5 == 4 {
		// separate configuration: a resize (with a real size change) between two frames
		nw := g.Range(8, 200)
		sc.Plan.Disturb = []wire.Disturb{{Kind: "resize", Task: "main", Site: "inputwait", Nth: g.Range(1, len(sc.Script)), W: nw, H: env.H}}
	}
	return sc
}

// c04HintCmds put something in the rows below the input area (a hint, a message, a list).
var c04HintCmds = map[string]bool{"macro-toggle-record": true, "start-kbd-macro": true, "digit-argument": true, "vi-arg-digit": true,
	"re-read-init-file": true, "reverse-search-history": true, "forward-search-history": true, "macro-run": true}

// judgeBelow: the rows under the input area of a frame that judgeFrame found right are blank.
func judgeBelow(w *sim.Snap) (sig, msg string) {
	t := w.Screen
	buf := []rune(w.Line)
	if t == nil || strings.ContainsRune(w.Line, '\t') {
		return "", ""
	}
	anchorRow := w.AnchorAbsRow - t.Scrolled
	anchorCol := w.ReportCol - 1
	if w.ReportWrap {
		anchorRow, anchorCol = anchorRow+1, 0
	}
	l := refLayout(buf, w.Pos, anchorRow, anchorCol, t.W)
	for r := l.lastRow + 1; r < t.H; r++ {
		for c := 0; c < t.W; c++ {
			if cell := t.Rows[r][c]; !cell.Blank() {
				return "layout:remnant-below:" + shapeClass(buf, anchorCol, t.W), fmt.Sprintf("cell (%d,%d) below the input area (rows %d..%d) shows %q although nothing was ever displayed there but earlier content of the input area; buffer %q cursor %d, terminal %dx%d; screen %q",
					r, c, anchorRow, l.lastRow, cell.S, w.Line, w.Pos, t.W, t.H, t.Dump())
			}
		}
	}
	return "", ""
}

// wrapRows lays plain one-cell-per-rune lines out on rows of width w, the way a terminal does.
func wrapRows(lines []string, w int) []string {
	var rows []string
	for _, l := range lines {
		r := []rune(l)
		if len(r) == 0 {
			rows = append(rows, "")
		}
		for len(r) > 0 {
			n := len(r)
			if n > w {
				n = w
			}
			rows = append(rows, strings.TrimRight(string(r[:n]), " "))
			r = r[n:]
		}
	}
	return rows
}

// judgeAbove: the rows directly above the input area hold what was written there last (the upper
// lines of a prompt of several lines and, above them, the lines of a message the application
// printed), each alone on its rows. lines lists them top-down; rows scrolled off the top are not judged.
func judgeAbove(w *sim.Snap, lines []string) (sig, msg string) {
	t := w.Screen
	if t == nil || w.Queries == 0 || len(lines) == 0 {
		return "", ""
	}
	rows := wrapRows(lines, t.W)
	anchorRow := w.AnchorAbsRow - t.Scrolled
	if anchorRow > t.H {
		return "", ""
	}
	for i := range rows {
		r := anchorRow - len(rows) + i
		if r < 0 || r >= t.H {
			continue
		}
		if got := t.RowText(r); got != rows[i] {
			return "layout:above-the-input-area", fmt.Sprintf("row %d, %d above the input area (which starts on row %d), shows %q; what was printed there last is %q; terminal %dx%d; screen %q",
				r, anchorRow-r, anchorRow, got, rows[i], t.W, t.H, t.Dump())
		}
	}
	return "", ""
}

// promptUpper gives the lines of a prompt above its last one, without colour sequences.
func promptUpper(prompt string) []string {
	l := strings.Split(csiRx.ReplaceAllString(prompt, ""), "\n")
	return l[:len(l)-1]
}

func execC04(x *Ctx, sc *wire.Scenario) *wire.Result {
	if len(sc.Plans) > 0 {
		// the same keys under several delivery schedules, each judged like a scenario of its own
		// (the first one that fails is the replay: one schedule)
		total := okResult(sc)
		for _, p := range append([]wire.Plan{sc.Plan}, sc.Plans...) {
			one := *sc
			one.Plan, one.Plans = p, nil
			r := execC04(x, &one)
			if r.Verdict == "violation" {
				return r
			}
			for k, v := range r.Counters {
				total.Counters[k] += v
			}
			total.Nontrivial = total.Nontrivial || r.Nontrivial
			total.Steps += r.Steps
			total.Sessions += r.Sessions
		}
		return total
	}
	res := okResult(sc)
	hooks := sim.Hooks{}
	var xx c04X
	if len(sc.X) > 0 {
		jsonInto(sc.X, &xx)
	}
	if xx.Calls > 1 {
		hooks.Body = func(s *sim.Session, sh *readlineShell) {
			for i := 0; i < xx.Calls; i++ {
				s.Readline(sh)
			}
		}
	}
	if xx.IdleW > 0 {
		hooks.Body = func(s *sim.Session, sh *readlineShell) {
			s.Readline(sh)
			s.ResizeIdle(xx.IdleW, sc.Env.H)
			s.Readline(sh)
		}
	}
	out := runSession(x, sc, sc.Plan, hooks, true)
	absorb(res, out)
	if out.End == "PANIC" || out.End == "DEADLOCK" || out.End == "LIVELOCK" {
		res.Counters["skipped:crash"]++
		return res
	}
	resized := false
	lastUnknown := 0
	for i := range out.Waits {
		w := &out.Waits[i]
		if out.Extra["resized"] == true && w.Dirty {
			resized = true
		}
		if w.Kind != "main" || w.Partial != 0 {
			continue
		}
		if w.Screen != nil && w.Screen.Unknown > lastUnknown {
			lastUnknown = w.Screen.Unknown
			res.Counters["frames_unjudged"]++
			continue
		}
		if w.Local == "isearch" || w.Local == "menu-select" || (i > 0 && out.Waits[i-1].Local == "isearch") {
			res.Counters["frames_unjudged"]++
			continue
		}
		if out.Extra["resized"] == true && w.Dirty {
			resized = true
		}
		if resized {
			// after a width change rows painted before may have been truncated or reflowed by the
			// terminal: only frames whose whole area was repainted after it are judged (C20 covers more)
			res.Counters["frames_unjudged"]++
			continue
		}
		rule, sig, msg := judgeFrame(w)
		switch rule {
		case "":
		case "ok":
			res.Counters["frames_judged"]++
			res.Nontrivial = true
			// below the input area: nothing, as long as no command of the script has put up a hint
			// (rows that an earlier, taller content of the input area occupied must have been erased)
			quiet := true
			for k := 0; k < w.Tokens && k < len(sc.Script); k++ {
				if c04HintCmds[sc.Script[k].Cmd] {
					quiet = false
				}
			}
			if quiet {
				if sig, msg := judgeBelow(w); sig != "" {
					return violation(res, "LAYOUT", "C04.no-remnants", sig, fmt.Sprintf("frame after %d keys (%s): %s", w.Tokens, lastCmd(sc, w.Tokens), msg))
				}
				res.Counters["frames_judged_below"]++
			}
			// above the input area: the upper lines of the prompt, untouched by every redisplay. Named by what
			// the session had displayed before (the engine loses track of the row the input area starts on in
			// two situations that are listed findings; a session with neither is named as "plain")
			if up := promptUpper(sc.Env.Prompt); len(up) > 0 {
				cls := "plain"
				if !quiet {
					cls = "after-a-hint"
				}
				multi := false
				for j := 0; j <= i; j++ {
					if strings.Contains(out.Waits[j].Line, "\n") {
						multi = true
					}
				}
				for k := 0; k < w.Tokens && k < len(sc.Script); k++ {
					if c := sc.Script[k].Cmd; strings.Contains(c, "history") || strings.Contains(c, "search") {
						for _, h := range sc.Env.History {
							for _, e := range h.Entries {
								if strings.Contains(e, "\n") {
									multi = true
								}
							}
						}
					}
				}
				if multi {
					cls = "after-a-buffer-of-several-lines"
				}
				if sig, msg := judgeAbove(w, up); sig != "" {
					return violation(res, "LAYOUT", "C04.prompt-intact", sig+":"+cls, fmt.Sprintf("frame after %d keys (%s): %s", w.Tokens, lastCmd(sc, w.Tokens), msg))
				}
				res.Counters["frames_judged_above"]++
			}
		case "unjudged":
			res.Counters["frames_unjudged"]++
		default:
			return violation(res, "LAYOUT", rule, sig, fmt.Sprintf("frame after %d keys (%s): %s", w.Tokens, lastCmd(sc, w.Tokens), msg))
		}
	}
	if sc.Index%500 == 0 {
		res.Sample = sample(sc, map[string]any{"frames_judged": res.Counters["frames_judged"], "final_screen": out.Final.Dump()})
	}
	return res
}
