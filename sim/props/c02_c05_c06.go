package props

import (
	"fmt"
	"sort"
	"strings"

	"verifsim/sim"
	"verifsim/wire"
)

// waitAfter returns the last input wait observed after exactly k complete
// tokens were typed (and consumed), nil if there is none.
func waitAfter(out *sim.Outcome, k int) *sim.Snap {
	var found *sim.Snap
	for i := range out.Waits {
		w := &out.Waits[i]
		if w.Tokens == k && w.Partial == 0 {
			found = w
		}
	}
	return found
}

func firstReturn(out *sim.Outcome) (string, string, bool) {
	if len(out.Returns) == 0 {
		return "", "", false
	}
	return out.Returns[0].Line, out.Returns[0].Err, true
}

// ---------------------------------------------------------------- C02

func init() {
	register(&Family{ID: "C02", Gen: genC02, Exec: execC02, Budget: budget(4000, 400000)})
}

type c02X struct {
	Early string `json:"early,omitempty"` // kernel-queue family: bytes put in the terminal's own input queue before the call
	Text  string `json:"text"`
	Cls   string `json:"cls"`
}

// genC02TwoLines: two lines typed one after the other for two Readline calls of the same shell; under the
// type-ahead schedules the second line (or its beginning) arrives in the read that carries the first Return.
func genC02TwoLines(g *Gen) *wire.Scenario {
	mode := Pick(g, []string{"emacs", "vi"})
	sc := &wire.Scenario{Prop: "C02", Family: "type-two-lines"}
	sc.Env = wire.Env{Mode: mode, Prompt: Pick(g, []string{"> ", "$ "}), W: Pick(g, []int{20, 80, 120}), H: g.Range(8, 40)}
	var texts []string
	for l := 0; l < 2; l++ {
		var rs []rune
		for i := 0; i < g.Range(1, 16); i++ {
			rs = append(rs, rune(g.Range(32, 126)))
		}
		texts = append(texts, string(rs))
		for _, r := range rs {
			sc.Script = append(sc.Script, tok(string(r), "self-insert"))
		}
		sc.Script = append(sc.Script, tok("\r", "accept-line"))
	}
	sc.X = mustJSON(c02X{Text: texts[0] + "\n" + texts[1], Cls: "ascii"})
	sc.Plan = wire.Plan{Policy: "seeded", Class: "S1", Paste: true, Seed: g.Seed()}
	sc.Plans = []wire.Plan{{Policy: "seeded", Class: "S2", Seed: g.Seed()}, {Policy: "seeded", Class: "S2", Seed: g.Seed()}}
	return sc
}

func genC02(g *Gen, tier string, idx int) *wire.Scenario {
	if idx%8 == 7 {
		return genC02TwoLines(g)
	}
	if idx%40 == 5 {
		return genC02KernelQueue(g)
	}
	mode := Pick(g, []string{"emacs", "vi"})
	sc := &wire.Scenario{Prop: "C02", Family: "type"}
	env := wire.Env{Mode: mode, Prompt: Pick(g, []string{"> ", "", "$ ", "prompt> "})}
	env.W = Pick(g, []int{10, 20, 40, 80, 120, 200})
	env.H = g.Range(5, 40)
	env.StartRow = g.N(env.H)
	cls := Pick(g, []string{"ascii", "ascii", "latin1", "bmp", "astral", "mixed"})
	n := g.Range(0, 30)
	if g.P(15) {
		n = g.Range(31, 120)
	}
	var rs []rune
	for i := 0; i < n; i++ {
		switch cls {
		case "ascii":
			rs = append(rs, rune(g.Range(32, 126)))
		case "latin1":
			if g.P(50) {
				rs = append(rs, rune(g.Range(0xA1, 0xFF)))
			} else {
				rs = append(rs, rune(g.Range(32, 126)))
			}
		case "bmp":
			switch g.N(3) {
			case 0:
				rs = append(rs, Pick(g, wideText))
			case 1:
				rs = append(rs, rune(g.Range(0x400, 0x44F))) // Cyrillic
			default:
				rs = append(rs, rune(g.Range(32, 126)))
			}
		case "astral":
			if g.P(50) {
				rs = append(rs, Pick(g, astralText))
			} else {
				rs = append(rs, rune(g.Range(32, 126)))
			}
		default:
			rs = append(rs, g.textRune(true))
		}
	}
	onoff := func() string { return Pick(g, []string{"on", "off"}) }
	if cls == "ascii" {
		env.Inputrc = append(env.Inputrc, "set convert-meta "+onoff())
	} else {
		env.Inputrc = append(env.Inputrc, "set convert-meta off")
	}
	env.Inputrc = append(env.Inputrc, "set input-meta "+onoff(), "set output-meta "+onoff(), "set enable-meta-key "+onoff())
	sc.Env = env
	for _, r := range rs {
		sc.Script = append(sc.Script, tok(string(r), "self-insert"))
	}
	sc.Script = append(sc.Script, tok("\r", "accept-line"))
	sc.X = mustJSON(c02X{Text: string(rs), Cls: cls})
	sc.Plan = wire.Plan{Policy: "seeded", Class: "S1", Paste: true, Seed: g.Seed()}
	sc.Plans = []wire.Plan{{Policy: "seeded", Class: "S2", Seed: g.Seed()}}
	return sc
}

// genC02KernelQueue: keys typed before the call (the application was busy) wait in the terminal's own input
// queue while Readline switches the terminal modes, at the start and at the end of the call. Switching modes
// is not reading: what waits there stays there (the simulated keyboard feeds the Stdin seam, so nothing of
// the library ever reads the real queue, and what was put in must still be in).
func genC02KernelQueue(g *Gen) *wire.Scenario {
	sc := &wire.Scenario{Prop: "C02", Family: "kernel-queue"}
	sc.Env = wire.Env{Mode: Pick(g, []string{"emacs", "vi"}), Prompt: "> ", W: 80, H: 24}
	early := Pick(g, []string{"abc\n", "ab\n", "x\n", "ls -l\npwd\n", "q\n"}) // (whole lines: countable in canonical mode too)
	var rs []rune
	for i := 0; i < g.Range(1, 6); i++ {
		rs = append(rs, g.textRune(false))
	}
	for _, r := range rs {
		sc.Script = append(sc.Script, tok(string(r), "self-insert"))
	}
	sc.Script = append(sc.Script, tok("\r", "accept-line"))
	sc.X = mustJSON(c02X{Text: string(rs), Cls: "ascii", Early: early})
	sc.Plan = wire.Plan{Policy: "canonical", Class: "S0"}
	return sc
}

func execC02(x *Ctx, sc *wire.Scenario) *wire.Result {
	res := okResult(sc)
	var xx c02X
	jsonInto(sc.X, &xx)
	if sc.Family == "kernel-queue" {
		var atWait, afterReturn = -2, -2
		x.P.FlushKernelQueue()
		hooks := sim.Hooks{
			Body: func(s *sim.Session, sh *readlineShell) {
				x.P.TypeIntoKernel([]byte(xx.Early))
				s.Readline(sh)
				afterReturn = x.P.KernelQueue()
			},
			OnWait: func(s *sim.Session, snap *sim.Snap) {
				if atWait == -2 {
					atWait = x.P.KernelQueue()
				}
			},
		}
		out := runSession(x, sc, sc.Plan, hooks, false)
		x.P.FlushKernelQueue()
		absorb(res, out)
		if crashOracle(res, out, "C02") {
			return res
		}
		res.Nontrivial = true
		if len(out.Returns) != 1 || out.Returns[0].Line != xx.Text {
			res.Counters["skipped:did_not_return_the_text"]++
			return res
		}
		want := len(xx.Early)
		res.Counters["kernel_queue_checked"]++
		if atWait != want {
			return violation(res, "MISMATCH", "C02.typed-ahead-keys-survive-the-mode-switch", "kernel-queue:lost-entering",
				fmt.Sprintf("%q was typed before the call and waited in the terminal's input queue (%d bytes); at Readline's first wait for input the queue holds %d bytes: entering raw mode threw typed keys away", xx.Early, want, atWait))
		}
		if afterReturn != want && afterReturn != -2 {
			return violation(res, "MISMATCH", "C02.typed-ahead-keys-survive-the-mode-switch", "kernel-queue:lost-leaving",
				fmt.Sprintf("%q waited in the terminal's input queue during the call (%d bytes); after Readline returned the queue holds %d bytes: restoring the terminal modes threw typed keys away", xx.Early, want, afterReturn))
		}
		return res
	}
	if sc.Family == "type-two-lines" {
		want := strings.SplitN(xx.Text, "\n", 2)
		hooks := sim.Hooks{Body: func(s *sim.Session, sh *readlineShell) {
			s.Readline(sh)
			s.Readline(sh)
		}}
		res.Nontrivial = true
		plans := append([]wire.Plan{{Policy: "canonical", Class: "S0"}, sc.Plan}, sc.Plans...)
		for pi, p := range plans {
			out := runSession(x, sc, p, hooks, false)
			absorb(res, out)
			if crashOracle(res, out, "C02") {
				return res
			}
			label := []string{"slow typist", "chunked at waits", "type-ahead", "type-ahead"}[pi%4]
			got := []string{}
			for _, r := range out.Returns {
				got = append(got, r.Line+"|"+r.Err)
			}
			if len(want) == 2 && (len(out.Returns) != 2 || out.Returns[0].Line != want[0] || out.Returns[1].Line != want[1] || out.Returns[0].Err != "" || out.Returns[1].Err != "") {
				sig := "identity:ascii:two-lines"
				if pi >= 2 {
					sig += ":type-ahead"
				}
				return violation(res, "MISMATCH", "C02.identity-two-calls", sig,
					fmt.Sprintf("[%s] two lines typed for two Readline calls, %q Return %q Return: the calls returned %q (end=%s)", label, want[0], want[1], got, out.End))
			}
		}
		return res
	}
	text := []rune(xx.Text)
	check := func(out *sim.Outcome, label string) (string, bool) {
		for i := range out.Waits {
			w := &out.Waits[i]
			if w.Partial != 0 || w.Tokens > len(text) {
				continue
			}
			if w.Line != string(text[:w.Tokens]) {
				return fmt.Sprintf("[%s] after typing %q the buffer is %q", label, string(text[:w.Tokens]), w.Line), false
			}
		}
		line, err, ok := firstReturn(out)
		if !ok {
			return fmt.Sprintf("[%s] Readline did not return after Return was typed (end=%s %s)", label, out.End, out.EndDetail), false
		}
		if err != "" {
			return fmt.Sprintf("[%s] Readline returned error %q", label, err), false
		}
		if line != xx.Text {
			return fmt.Sprintf("[%s] typed %q, Readline returned %q", label, xx.Text, line), false
		}
		return "", true
	}
	sigOf := func() string {
		cls := "ascii"
		for _, r := range text {
			if r > 0x7f {
				cls = "non-ascii"
			}
		}
		return "identity:" + cls
	}
	// canonical slow typist
	out0 := runSession(x, sc, wire.Plan{Policy: "canonical", Class: "S0"}, sim.Hooks{}, false)
	absorb(res, out0)
	res.Nontrivial = len(text) > 0
	if crashOracle(res, out0, "C02") {
		return res
	}
	if msg, ok := check(out0, "slow typist"); !ok {
		return violation(res, "MISMATCH", "C02.identity", sigOf(), msg)
	}
	// chunked at waits (every cut incl. mid-UTF-8, paste)
	out1 := runSession(x, sc, sc.Plan, sim.Hooks{}, false)
	absorb(res, out1)
	if crashOracle(res, out1, "C02") {
		return res
	}
	if msg, ok := check(out1, "chunked at waits"); !ok {
		return violation(res, "MISMATCH", "C02.identity-chunked", sigOf()+":chunked", msg)
	}
	// type-ahead batch: a failure here, with S0 and S1 passing, is schedule dependence (C05)
	for _, p := range sc.Plans {
		out2 := runSession(x, sc, p, sim.Hooks{}, false)
		absorb(res, out2)
		if out2.End == "PANIC" || out2.End == "DEADLOCK" || out2.End == "LIVELOCK" {
			res.Counters["note:typeahead_failure_attributed_to_C05"]++
			continue
		}
		if msg, ok := check(out2, "type-ahead"); !ok {
			if sigOf() == "identity:ascii" {
				// plain ASCII text survives every chunking on this tree: losing part of it is this property's business too
				return violation(res, "MISMATCH", "C02.identity-typeahead", "identity:ascii:type-ahead", msg)
			}
			res.Counters["note:typeahead_failure_attributed_to_C05"]++
		}
	}
	if sc.Index%500 == 0 {
		res.Sample = sample(sc, map[string]any{"text": xx.Text, "returned": out1.Returns})
	}
	return res
}

// ---------------------------------------------------------------- C05

func init() {
	register(&Family{ID: "C05", Gen: genC05, Exec: execC05, Budget: budget(1500, 100000)})
}

// c05CoreCmds is the repertoire of the "core" batch of C05: plain editing, movement, history walk,
// vi operators with motions and the argument-reading commands, all through default key sequences.
// On this tree the core batch is free of the known schedule-dependence findings, so that any
// divergence in it is reported (the full-alphabet batch keeps exploring everything else).
func c05CoreOnly() map[string]bool {
	m := map[string]bool{"vi-delete-to": true, "vi-change-to": true, "vi-yank-to": true, "quoted-insert": true, "vi-change-char": true,
		"vi-find-next-char": true, "vi-find-prev-char": true, "vi-find-next-char-skip": true, "vi-find-prev-char-skip": true,
		"vi-char-search": true, "vi-replace": false, "vi-delete": true, "vi-put-after": true, "vi-put-before": true,
		"select-in-word": true, "select-a-word": true, "select-in-blank-word": true, "select-a-blank-word": true}
	for k, v := range plainCmds {
		if v {
			m[k] = true
		}
	}
	for k, v := range movementCmds {
		if v {
			m[k] = true
		}
	}
	for _, k := range []string{"accept-line", "undo", "vi-undo", "kill-region", "set-mark", "exchange-point-and-mark", "copy-region-as-kill",
		"character-search", "character-search-backward", "vi-set-mark", "vi-goto-mark", "vi-match"} {
		delete(m, k)
	}
	return m
}

func genC05Core(g *Gen, tier string, idx int) *wire.Scenario {
	mode := Pick(g, []string{"emacs", "vi"})
	sc := &wire.Scenario{Prop: "C05", Family: "chunk-core"}
	env := wire.Env{Mode: mode, Prompt: "> ", W: Pick(g, []int{20, 40, 80}), H: g.Range(6, 30)}
	env.StartRow = g.N(env.H)
	h := wire.HistSrc{Kind: "memory", Name: "h0"}
	for i := 0; i < g.Range(0, 4); i++ {
		h.Entries = append(h.Entries, g.histLine(false))
	}
	env.History = []wire.HistSrc{h}
	env.NoDefaultHistory = true
	sc.Env = env
	o := ScriptOpts{Mode: mode, N: g.Range(2, 12), Unicode: false, RawPct: 0, NoAccept: true, NoExtra: true, Only: c05CoreOnly()}
	for i := 0; i < g.Range(0, 6); i++ {
		sc.Script = append(sc.Script, tok(string(Pick(g, []rune("abc de(f)\"x'"))), "self-insert"))
	}
	if mode == "vi" && g.P(70) {
		sc.Script = append(sc.Script, tok("\x1b", "vi-movement-mode"))
		sc.Script = append(sc.Script, g.editScriptTracker(tracker{main: "vi-command"}, o)...)
		if g.P(50) {
			sc.Script = append(sc.Script, tok("i", "vi-insertion-mode"))
		}
	} else {
		sc.Script = append(sc.Script, g.EditScript(o)...)
	}
	isearch := false
	if mode == "emacs" && g.P(14) {
		// an incremental history search: search text, keys that move through the matches, Return
		// (no ESC-led sequences here: a lone ESC leaves the search, so a sequence cut after it is another input)
		isearch = true
		sc.Env.History = []wire.HistSrc{{Kind: "memory", Name: "h0", Entries: []string{"echo alpha", "git commit -m x", "ls -la /tmp", "echo beta gamma", "git status"}}}
		sc.Script = sc.Script[:0]
		for i := 0; i < g.N(3); i++ {
			sc.Script = append(sc.Script, tok(string(Pick(g, []rune("eg"))), "self-insert"))
		}
		sc.Script = append(sc.Script, tok(Pick(g, []string{"\x12", "\x12", "\x13"}), "isearch-start"))
		for _, r := range Pick(g, []string{"ech", "e", "git", "a", "t", "s", "mm", "zz"}) {
			sc.Script = append(sc.Script, tok(string(r), "isearch-char"))
		}
		for i := 0; i < g.Range(0, 3); i++ {
			sc.Script = append(sc.Script, tok(Pick(g, []string{"\t", "\x0e", "\x10", "\t", "\x7f"}), "isearch-move"))
		}
	}
	macroWrapped := false
	// a keyboard macro recorded over some of these keys, then replayed: what is recorded must not depend
	// on how the recorded keys were cut into reads (emacs style here; the vi style is C18's)
	if mode == "emacs" && !isearch && g.P(25) && len(sc.Script) > 0 {
		from := g.N(len(sc.Script))
		body := append([]wire.Token(nil), sc.Script[from:]...)
		body = append(body, tok(Pick(g, []string{"\x1b[D", "\x1b[C", "\x1bOD", "\x1b[1;5D", "\x1bb", "\x1bf"}), "arrow-key"))
		var w []wire.Token
		w = append(w, sc.Script[:from]...)
		w = append(w, tok("\x18(", "start-kbd-macro"))
		w = append(w, body...)
		w = append(w, tok("\x18)", "end-kbd-macro"), tok("\x18e", "call-last-kbd-macro"))
		sc.Script = w
		macroWrapped = true
	}
	// argument keys are plain ASCII here
	for i := range sc.Script {
		if sc.Script[i].Cmd == "arg-key" || strings.HasPrefix(sc.Script[i].Cmd, "raw-") {
			sc.Script[i].B = wire.Bytes(string(Pick(g, []rune("abcdxe ("))))
		}
	}
	sc.Script = append(sc.Script, tok("\r", "accept-line"))
	n := 6
	if tier == "thorough" {
		n = 24
	}
	for i := 0; i < n; i++ {
		cls := "S2"
		if macroWrapped {
			// the keys a replayed macro feeds are queued behind keys already read (a listed finding of the
			// full batch): here each key sequence is cut into reads, but no two tokens share a read
			cls = "S1"
		}
		sc.Plans = append(sc.Plans, wire.Plan{Policy: "seeded", Class: cls, Seed: g.Seed()})
	}
	sc.Plan = wire.Plan{Policy: "canonical", Class: "S0"}
	return sc
}

func genC05(g *Gen, tier string, idx int) *wire.Scenario {
	if idx%2 == 0 {
		return genC05Core(g, tier, idx)
	}
	mode := "emacs"
	if g.P(50) {
		mode = "vi"
	}
	sc := &wire.Scenario{Prop: "C05", Family: "chunk"}
	env := wire.Env{Mode: mode, Prompt: Pick(g, []string{"> ", "$ ", ""}), W: Pick(g, []int{20, 40, 80, 120}), H: g.Range(6, 40)}
	env.StartRow = g.N(env.H)
	if g.P(60) {
		h := wire.HistSrc{Kind: "memory", Name: "h0"}
		for i := 0; i < g.Range(1, 6); i++ {
			h.Entries = append(h.Entries, g.histLine(false))
		}
		env.History = append(env.History, h)
	}
	if g.P(25) {
		env.Comp = g.compSpec(g.Range(2, 6), false)
	}
	env.Binds = append(env.Binds, g.Cat.Extra...)
	// prefix-overlapping binds and a macro, as the statement names them
	if g.P(30) {
		km := "emacs"
		if mode == "vi" {
			km = "vi-insert"
		}
		env.Binds = append(env.Binds,
			wire.BindSpec{Keymap: km, Seq: wire.Bytes("\x1dq"), Action: "beginning-of-line"},
			wire.BindSpec{Keymap: km, Seq: wire.Bytes("\x1dqq"), Action: "end-of-line"},
			wire.BindSpec{Keymap: km, Seq: wire.Bytes("\x1dm"), Action: "abc", Macro: true})
	}
	sc.Env = env
	o := ScriptOpts{Mode: mode, N: g.Range(2, 12), Unicode: g.P(25), RawPct: 5, NoAccept: true,
		Exclude: map[string]bool{"edit-command-line": true, "vi-edit-command-line": true, "edit-and-execute-command": true, "vi-edit-and-execute-command": true,
			"re-read-init-file": true}}
	if mode == "vi" && g.P(60) {
		sc.Script = append(sc.Script, tok(string(g.textRune(false)), "self-insert"), tok("\x1b", "vi-movement-mode"))
		sc.Script = append(sc.Script, g.editScriptTracker(tracker{main: "vi-command"}, o)...)
	} else {
		sc.Script = append(sc.Script, g.EditScript(o)...)
	}
	if len(env.Binds) > len(g.Cat.Extra) && g.P(70) {
		at := g.N(len(sc.Script) + 1)
		extra := tok(Pick(g, []string{"\x1dq", "\x1dqq", "\x1dm"}), "overlap-bind")
		sc.Script = append(sc.Script[:at], append([]wire.Token{extra}, sc.Script[at:]...)...)
	}
	switch g.N(10) {
	case 0:
		sc.Script = append(sc.Script, tok("\x03", "abort"))
	case 1:
	default:
		sc.Script = append(sc.Script, tok("\r", "accept-line"))
	}
	n := 6
	if tier == "thorough" {
		n = 24
	}
	for i := 0; i < n; i++ {
		sc.Plans = append(sc.Plans, wire.Plan{Policy: "seeded", Class: "S2", Seed: g.Seed()})
	}
	sc.Plan = wire.Plan{Policy: "canonical", Class: "S0"}
	return sc
}

type finalState struct {
	Returned bool
	Line     string
	Err      string
	Buf      string
	Pos      int
	Main     string
	Local    string
	End      string
}

func finalOf(out *sim.Outcome) finalState {
	f := finalState{End: out.End}
	if l, e, ok := firstReturn(out); ok {
		f.Returned, f.Line, f.Err = true, l, e
		return f
	}
	if out.FinalSnap != nil {
		f.Buf, f.Pos, f.Main, f.Local = out.FinalSnap.Line, out.FinalSnap.Pos, out.FinalSnap.Main, out.FinalSnap.Local
	}
	return f
}

func (f finalState) String() string {
	if f.Returned {
		return fmt.Sprintf("returned (%q, %q)", f.Line, f.Err)
	}
	return fmt.Sprintf("%s with buffer %q cursor %d keymap %s/%s", f.End, f.Buf, f.Pos, f.Main, f.Local)
}

func scheduleFeature(out *sim.Outcome) string {
	switch {
	case out.Counters["reach:typed_into_cursor_read"] > 0:
		return "typed-bytes-reach-cursor-query-read"
	case out.Counters["reach:report_fused_with_typed"] > 0:
		return "report-fused-with-typed"
	case out.Counters["reach:arg_read_with_typeahead"] > 0:
		return "argument-read-with-typeahead"
	case out.Counters["reach:partial_read"] > 0:
		return "partial-read"
	}
	return "typeahead"
}

func divergenceKind(ref, got finalState) string {
	switch {
	case got.End == "PANIC" || got.End == "DEADLOCK" || got.End == "LIVELOCK":
		return strings.ToLower(got.End)
	case ref.Returned != got.Returned:
		return "return-differs"
	case ref.Err != got.Err:
		return "error-differs"
	}
	a, b := ref.Line, got.Line
	if !ref.Returned {
		a, b = ref.Buf, got.Buf
	}
	switch {
	case a == b:
		return "state-differs"
	case len(b) < len(a) && isSubsequence(b, a):
		return "keys-lost"
	case len(b) > len(a) && isSubsequence(a, b):
		return "keys-extra"
	case sortedRunes(a) == sortedRunes(b):
		return "keys-reordered"
	}
	return "keys-reinterpreted"
}

func isSubsequence(s, t string) bool {
	rs, rt := []rune(s), []rune(t)
	i := 0
	for _, c := range rt {
		if i < len(rs) && rs[i] == c {
			i++
		}
	}
	return i == len(rs)
}

func sortedRunes(s string) string {
	r := []rune(s)
	sort.Slice(r, func(i, j int) bool { return r[i] < r[j] })
	return string(r)
}

func execC05(x *Ctx, sc *wire.Scenario) *wire.Result {
	res := okResult(sc)
	ref := runSession(x, sc, wire.Plan{Policy: "canonical", Class: "S0"}, sim.Hooks{}, false)
	absorb(res, ref)
	if ref.End == "PANIC" || ref.End == "DEADLOCK" || ref.End == "LIVELOCK" || ref.End == "BUDGET" {
		res.Counters["skipped:canonical_run_failed"]++
		return res
	}
	rf := finalOf(ref)
	for i, p := range sc.Plans {
		out := runSession(x, sc, p, sim.Hooks{}, false)
		absorb(res, out)
		if out.Counters["reach:partial_read"]+out.Counters["reach:report_fused_with_typed"]+out.Counters["reach:typed_into_cursor_read"] > 0 {
			res.Nontrivial = true
		}
		if out.End == "BUDGET" {
			res.Counters["skipped:budget"]++
			continue
		}
		gf := finalOf(out)
		if gf != rf {
			kind := divergenceKind(rf, gf)
			feat := scheduleFeature(out)
			extra := ""
			if out.End == "PANIC" {
				extra = "\n" + out.Panic + "\n" + trimStack(out.PanicStack)
			}
			// keep only the failing plan so that the replay is one schedule
			batch := ""
			if sc.Family == "chunk-core" {
				batch = "core:"
			}
			// In the full batch the tree is known to depend on the schedule through several defects
			// whose symptoms (keys lost, reordered, reinterpreted, a different return) overlap: a known
			// finding is named by the schedule class alone there, the symptom stays in the message.
			// A crash under a schedule names its frame, and the restricted core batch (which the tree
			// passes) keeps the symptom in the signature.
			sig := batch + "diverge:" + kind + ":" + feat
			if batch == "" {
				sig = "diverge:" + feat
			} else if feat == "typed-bytes-reach-cursor-query-read" && sc.Env.Mode == "emacs" {
				// (in emacs mode the core scripts do not depend on it: named in full)
				sig = batch + "diverge:" + kind + ":" + feat + ":emacs"
			} else if feat == "typed-bytes-reach-cursor-query-read" {
				// the one known defect that the core scripts reach as well (rarely): keys read by the
				// cursor position query are put back without the main read path's bookkeeping
				sig = batch + "diverge:" + feat
			}
			if out.End == "PANIC" {
				sig = batch + "diverge:" + panicSig(out.Panic, out.PanicStack) + ":" + feat
			}
			return violation(res, "DIVERGENCE", "C05.schedule-independence", sig,
				fmt.Sprintf("same bytes, different outcome (%s): slow typist %s; schedule #%d (%s) %s%s", kind, rf, i, feat, gf, extra))
		}
	}
	if sc.Index%300 == 0 {
		res.Sample = sample(sc, map[string]any{"outcome": rf.String(), "schedules": len(sc.Plans)})
	}
	return res
}

// ---------------------------------------------------------------- C06

func init() {
	register(&Family{ID: "C06", Gen: genC06, Exec: execC06, Budget: budget(4000, 600000)})
}

var movementCmds = map[string]bool{
	"forward-char": true, "backward-char": true, "forward-word": true, "backward-word": true,
	"shell-forward-word": true, "shell-backward-word": true, "beginning-of-line": true, "end-of-line": true,
	"previous-screen-line": true, "next-screen-line": true,
	"vi-forward-char": true, "vi-backward-char": true, "vi-forward-word": true, "vi-backward-word": true,
	"vi-prev-word": true, "vi-next-word": true, "vi-end-word": true, "vi-forward-bigword": true,
	"vi-backward-bigword": true, "vi-end-bigword": true, "vi-backward-end-word": true,
	"vi-backward-end-bigword": true, "vi-end-of-line": true, "vi-first-print": true, "vi-back-to-indent": true,
	"vi-find-next-char": true, "vi-find-next-char-skip": true, "vi-find-prev-char": true,
	"vi-find-prev-char-skip": true, "vi-char-search": true, "vi-match": true, "vi-goto-mark": true,
	"vi-set-mark": true, "vi-column": true, "set-mark": true, "exchange-point-and-mark": true,
	"character-search": true, "character-search-backward": true, "copy-region-as-kill": true,
	"copy-backward-word": true, "copy-forward-word": true, "vi-yank-whole-line": true, "vi-yank-to": true,
	"select-a-blank-word": true, "select-a-shell-word": true, "select-a-word": true,
	"select-in-blank-word": true, "select-in-shell-word": true, "select-in-word": true,
	"beginning-of-line-hist": false, "vi-beginning-of-line": true, "vi-goto-column": true,
}

// plainCmds is the plain editing repertoire (besides the movement commands) inside which
// movement purity and the vi-command cursor rule are judged.
var plainCmds = map[string]bool{
	"self-insert": true, "digit-argument": true, "vi-arg-digit": true, "backward-delete-char": true, "delete-char": true,
	"kill-line": true, "kill-word": true, "backward-kill-word": true, "unix-word-rubout": true, "unix-line-discard": true,
	"backward-kill-line": true, "yank": true, "transpose-chars": true, "vi-movement-mode": true, "vi-insertion-mode": true,
	"vi-append-mode": true, "vi-append-eol": true, "vi-insert-beg": true, "vi-delete": true, "vi-put-before": true,
	"vi-put-after": true, "vi-visual-mode": true, "undo": true, "vi-undo": true, "tab-insert": true, "accept-line": true,
	"kill-region": true, "kill-whole-line": true, "capitalize-word": true, "up-case-word": true, "down-case-word": true,
	"previous-history": true, "next-history": true, "up-line-or-history": true, "down-line-or-history": true,
	"vi-backward-delete-char": true, "vi-change-case": true, "vi-kill-eol": true, "vi-change-eol": true, "delete-word": true,
	"vi-open-line-above": true, "vi-open-line-below": true, "vi-first-print": true,
	"vi-set-buffer": true, // names the register of the next copy or put: edits nothing itself
}

// verbatimModeCmds start a mode in which every key is inserted as text.
var verbatimModeCmds = map[string]bool{
	"non-incremental-forward-search-history": true, "non-incremental-reverse-search-history": true,
	"vi-search": true, "vi-search-again": true, "overwrite-mode": true, "vi-replace": true, "bracketed-paste-begin": true,
	"vi-search-backward": true, "vi-search-forward": true, "vi-search-again-backward": true, "vi-search-again-forward": true,
	"vi-overstrike": true, "re-read-init-file": true,
}

// verbatimAnywhere reports whether a token is bound, in any keymap, to a
// command that starts a verbatim-insertion mode.
func verbatimAnywhere(cat *Catalog, env *wire.Env, b string) bool {
	for _, seqs := range cat.Seqs {
		if verbatimModeCmds[seqs[b]] {
			return true
		}
	}
	for _, bs := range env.Binds {
		if string(bs.Seq) == b && verbatimModeCmds[bs.Action] {
			return true
		}
	}
	return false
}

// genC06ViRegisters: copies into named registers (and appends to them through the upper-case names)
// from different places of a multi-line buffer; none of it may change the text.
func genC06ViRegisters(g *Gen) *wire.Scenario {
	sc := &wire.Scenario{Prop: "C06", Family: "edit-vi-registers"}
	env := wire.Env{Mode: "vi", Prompt: "> ", W: 80, H: 24, Multiline: "backslash", NoDefaultHistory: true}
	sc.Env = env
	lines := g.Range(2, 3)
	if g.P(15) {
		lines = 1
	}
	for l := 0; l < lines; l++ {
		for i := 0; i < g.Range(2, 12); i++ {
			sc.Script = append(sc.Script, tok(string(Pick(g, []rune("abc def xy"))), "self-insert"))
		}
		if l < lines-1 {
			sc.Script = append(sc.Script, tok("\\", "self-insert"), tok("\r", "accept-line"))
		}
	}
	sc.Script = append(sc.Script, tok("\x1b", "vi-movement-mode"))
	for j := 0; j < g.N(3); j++ {
		sc.Script = append(sc.Script, tok("k", "vi-move")) // towards the first line
	}
	for i := 0; i < g.Range(2, 6); i++ {
		for j := 0; j < g.N(3); j++ {
			sc.Script = append(sc.Script, tok(Pick(g, []string{"k", "j", "0", "$", "w", "b", "h", "l"}), "vi-move"))
		}
		if g.P(85) {
			// the first copy names the register in lower case, later ones mostly append to it through the upper-case name
			reg := "a"
			if i > 0 && g.P(70) {
				reg = "A"
			} else if g.P(20) {
				reg = Pick(g, []string{"b", "B", "z"})
			}
			sc.Script = append(sc.Script, tok("\"", "vi-set-buffer"), tok(reg, "arg-key"))
		}
		switch g.N(5) {
		case 0, 1:
			sc.Script = append(sc.Script, tok("Y", "vi-yank-whole-line"))
		case 2:
			sc.Script = append(sc.Script, tok("y", "vi-yank-to"), tok("y", "vi-yank-to"))
		case 3:
			sc.Script = append(sc.Script, tok("y", "vi-yank-to"), tok(Pick(g, []string{"w", "$", "b", "e", "0"}), "vi-move"))
		default:
			sc.Script = append(sc.Script, tok("y", "vi-yank-to"), tok("i", "select-inside"), tok("w", "arg-key"))
		}
	}
	if g.P(60) {
		sc.Script = append(sc.Script, tok("\r", "accept-line"))
	}
	sc.Plan = wire.Plan{Policy: "canonical", Class: "S0"}
	return sc
}

// genC06Region: an explicit region (mark set, point moved, exchange-point-and-mark), kept active while the
// buffer shrinks under it (deletions, a shorter history line, undo), then the commands that use the region.
func genC06Region(g *Gen) *wire.Scenario {
	sc := &wire.Scenario{Prop: "C06", Family: "edit-region"}
	env := wire.Env{Mode: "emacs", Prompt: "> ", W: 80, H: 24, NoDefaultHistory: true}
	env.History = []wire.HistSrc{{Kind: "memory", Name: "h0", Entries: []string{"ls -l", "x", "echo a longer line of history"}}}
	env.Binds = g.Cat.Extra
	sc.Env = env
	km := "emacs"
	add := func(cmd string) {
		if seq := g.Cat.ShortSeqFor(km, cmd); seq != "" {
			sc.Script = append(sc.Script, tok(seq, cmd))
		}
	}
	text := Pick(g, []string{"echo hello world", "a b c d e f", "héllo", "one two", "x"})
	for _, r := range text {
		if r < 0x80 {
			sc.Script = append(sc.Script, tok(string(r), "self-insert"))
		}
	}
	for i := 0; i < g.N(8); i++ {
		add(Pick(g, []string{"backward-char", "backward-char", "backward-word", "beginning-of-line"}))
	}
	add("set-mark")
	for i := 0; i < g.Range(1, 8); i++ {
		add(Pick(g, []string{"forward-char", "forward-char", "forward-word", "end-of-line", "backward-char"}))
	}
	add("exchange-point-and-mark")
	if g.P(30) {
		add("exchange-point-and-mark")
	}
	for i := 0; i < g.Range(1, 10); i++ {
		add(Pick(g, []string{"delete-char", "delete-char", "delete-char", "backward-delete-char", "previous-history", "next-history", "undo", "forward-char", "end-of-line"}))
	}
	for i := 0; i < g.N(3); i++ {
		add(Pick(g, []string{"copy-region-as-kill", "kill-region", "exchange-point-and-mark", "yank", "delete-char"}))
	}
	if g.P(60) {
		sc.Script = append(sc.Script, tok("\r", "accept-line"))
	}
	sc.Plan = wire.Plan{Policy: "canonical", Class: "S0"}
	return sc
}

// genC06Autosuggest: history-autosuggest on, a buffer of several lines, a history entry that continues the whole
// buffer. A motion at the very end of the buffer takes text from the suggestion (that is the feature); anywhere
// else, the end of an inner line included, a motion is a motion.
func genC06Autosuggest(g *Gen) *wire.Scenario {
	sc := &wire.Scenario{Prop: "C06", Family: "edit-autosuggest"}
	mode := Pick(g, []string{"emacs", "vi"})
	env := wire.Env{Mode: mode, Prompt: "> ", W: 80, H: 24, Multiline: "backslash", NoDefaultHistory: true}
	env.Inputrc = []string{"set history-autosuggest on"}
	var lines []string
	for l := 0; l < g.Range(2, 3); l++ {
		lines = append(lines, Pick(g, []string{"echo one", "ls -l /tmp", "a b", "git commit", "x"}))
	}
	buf := strings.Join(lines, "\\\n")
	env.History = []wire.HistSrc{{Kind: "memory", Name: "h0", Entries: []string{"unrelated", buf + " && more words here", buf + "z"}}}
	env.Binds = g.Cat.Extra
	sc.Env = env
	for i, l := range lines {
		for _, r := range l {
			sc.Script = append(sc.Script, tok(string(r), "self-insert"))
		}
		if i < len(lines)-1 {
			sc.Script = append(sc.Script, tok("\\", "self-insert"), tok("\r", "accept-line"))
		}
	}
	total := len([]rune(buf))
	inner := g.N(len(lines) - 1)
	end := -1 // index of the last character of the chosen inner line (its backslash)
	for i := 0; i <= inner; i++ {
		end += len([]rune(lines[i])) + 2
	}
	end--
	if mode == "vi" {
		sc.Script = append(sc.Script, tok("\x1b", "vi-movement-mode"))
		for i := 0; i < len(lines)-1-inner; i++ {
			sc.Script = append(sc.Script, tok("k", "vi-up-line-or-history"))
		}
		sc.Script = append(sc.Script, tok("$", "vi-end-of-line"))
		for i := 0; i < g.Range(1, 3); i++ {
			cmd := Pick(g, []string{"vi-forward-word", "vi-forward-word", "vi-end-word", "vi-forward-char", "vi-forward-blank-word"})
			if seq := g.Cat.ShortSeqFor("vi-command", cmd); seq != "" {
				sc.Script = append(sc.Script, tok(seq, cmd))
			}
		}
	} else {
		back := g.Cat.ShortSeqFor("emacs", "backward-char")
		for i := 0; i < total-end+g.N(2); i++ {
			sc.Script = append(sc.Script, tok(back, "backward-char"))
		}
		for i := 0; i < g.Range(1, 3); i++ {
			cmd := Pick(g, []string{"forward-word", "forward-word", "forward-char", "end-of-line"})
			if seq := g.Cat.ShortSeqFor("emacs", cmd); seq != "" {
				sc.Script = append(sc.Script, tok(seq, cmd))
			}
		}
	}
	if g.P(50) {
		sc.Script = append(sc.Script, tok("\r", "accept-line"))
	}
	sc.Plan = wire.Plan{Policy: "canonical", Class: "S0"}
	return sc
}

func genC06(g *Gen, tier string, idx int) *wire.Scenario {
	if idx%10 == 9 {
		return genC06ViRegisters(g)
	}
	if idx%20 == 13 {
		return genC06Autosuggest(g)
	}
	if idx%20 == 8 {
		return genC06Region(g)
	}
	mode := "emacs"
	if g.P(55) {
		mode = "vi"
	}
	sc := &wire.Scenario{Prop: "C06", Family: "edit"}
	env := g.swarmEnv(mode)
	// pin what the statement needs quiet
	var rc []string
	for _, l := range env.Inputrc {
		if strings.Contains(l, "history-autosuggest") || strings.Contains(l, "autocomplete") || strings.Contains(l, "prompt-transient") {
			continue
		}
		rc = append(rc, l)
	}
	env.Inputrc = rc
	sc.Env = env
	// 1. build a buffer
	nb := g.Range(0, 12)
	// typed text is ASCII here: non-ASCII input is C02's subject (and broken on the pinned tree);
	// multi-byte buffers reach this check through history recall
	uni := false
	typedText := ""
	for i := 0; i < nb; i++ {
		r := g.textRune(uni)
		typedText += string(r)
		sc.Script = append(sc.Script, tok(string(r), "self-insert"))
	}
	extended := false
	if nb > 0 && g.P(20) {
		extended = true
		// the history holds lines that begin with what is being typed (what an autosuggestion would offer)
		h := wire.HistSrc{Kind: "memory", Name: "hx", Entries: []string{typedText + g.word(false, 3), typedText + " " + g.word(false, 2)}}
		sc.Env.History = append(sc.Env.History, h)
	}
	if env.Multiline == "backslash" && g.P(70) {
		sc.Script = append(sc.Script, tok("\\", "self-insert"), tok("\r", "accept-line"))
		for i := 0; i < g.Range(0, 6); i++ {
			sc.Script = append(sc.Script, tok(string(g.textRune(uni)), "self-insert"))
		}
	}
	// 2. edit and move
	o := ScriptOpts{Mode: mode, N: g.Range(3, 16), Unicode: uni, RawPct: 0, NativeVi: true,
		Exclude: map[string]bool{"edit-command-line": true, "vi-edit-command-line": true, "edit-and-execute-command": true,
			"vi-edit-and-execute-command": true, "re-read-init-file": true, "clear-screen": true, "clear-display": true}}
	moveBias := g.P(60)
	var rest []wire.Token
	if mode == "vi" && g.P(65) {
		rest = append(rest, tok("\x1b", "vi-movement-mode"))
		if extended && g.P(70) {
			// on the last character, with a longer line of the same beginning in the history: the motions that
			// would run off the end of the line
			for i := 0; i < g.Range(1, 3); i++ {
				cmd := Pick(g, []string{"vi-forward-char", "vi-forward-char", "vi-end-of-line", "vi-forward-word", "vi-end-word"})
				if seq := g.Cat.ShortSeqFor("vi-command", cmd); seq != "" {
					rest = append(rest, tok(seq, cmd))
				}
			}
		}
		if g.P(15) {
			// a history search from command mode, confirmed: empty pattern, a whole entry, its beginning
			pat := ""
			if hs := sc.Env.History; len(hs) > 0 && len(hs[0].Entries) > 0 && g.P(70) {
				pat = hs[0].Entries[g.N(len(hs[0].Entries))]
				if i := strings.Index(pat, "\n"); i >= 0 {
					pat = pat[:i]
				}
				if g.P(40) && len(pat) > 1 {
					pat = pat[:g.Range(1, len(pat)-1)]
				}
			}
			rest = append(rest, tok(Pick(g, []string{"/", "?"}), "vi-search"))
			for _, r := range pat {
				if r >= 0x20 && r < 0x7f {
					rest = append(rest, tok(string(r), "search-char"))
				}
			}
			rest = append(rest, tok("\r", "search-accept"))
		}
		rest = append(rest, g.editScriptTracker(tracker{main: "vi-command"}, o)...)
	} else {
		rest = g.EditScript(o)
	}
	if moveBias {
		// sprinkle movement probes with numeric arguments
		km := "emacs"
		if mode == "vi" {
			km = "vi-command"
		}
		var moves []string
		for _, n := range g.Cat.Names[km] {
			if movementCmds[n] {
				moves = append(moves, n)
			}
		}
		for i := 0; i < g.Range(1, 5) && len(moves) > 0; i++ {
			cmd := Pick(g, moves)
			seq := g.Cat.SeqFor(g, km, cmd)
			var probe []wire.Token
			if g.P(50) {
				d := fmt.Sprint(g.Range(0, 15))
				for j, c := range d {
					if km == "vi-command" {
						if j == 0 && c == '0' {
							c = '2'
						}
						probe = append(probe, tok(string(c), "vi-arg-digit"))
					} else {
						if j == 0 && g.P(20) {
							probe = append(probe, tok("\x1b-", "digit-argument"))
						}
						probe = append(probe, tok("\x1b"+string(c), "digit-argument"))
					}
				}
			}
			probe = append(probe, tok(seq, cmd))
			if argCommands[cmd] {
				probe = append(probe, tok(string(Pick(g, []rune("abcxyz ;,.019"))), "arg-key"))
			}
			at := g.N(len(rest) + 1)
			if mode == "vi" && at == 0 && len(rest) > 0 && rest[0].Cmd == "vi-movement-mode" {
				at = 1
			}
			rest = append(rest[:at], append(probe, rest[at:]...)...)
		}
	}
	sc.Script = append(sc.Script, rest...)
	if g.P(70) {
		sc.Script = append(sc.Script, tok("\r", "accept-line"))
	}
	sc.Plan = wire.Plan{Policy: "canonical", Class: "S0"}
	if idx%3 == 1 {
		sc.Plan = wire.Plan{Policy: "seeded", Class: "S1", Seed: g.Seed(), ViRule: true}
	}
	return sc
}

// resolveToken finds the command a complete token will run from the
// keymaps observed at the wait before it ("" if it is not a complete
// unambiguous bound sequence there).
func resolveToken(cat *Catalog, env *wire.Env, main, local string, b string) (cmd string, ambiguous bool) {
	lookup := func(km string) (string, bool, bool) {
		seqs := cat.Seqs[km]
		act, ok := seqs[b]
		amb := false
		for s := range seqs {
			if len(s) > len(b) && strings.HasPrefix(s, b) {
				amb = true
			}
		}
		for _, bs := range env.Binds {
			if bs.Keymap != km {
				continue
			}
			s := string(bs.Seq)
			if s == b {
				act, ok = bs.Action, !bs.Macro
			}
			if len(s) > len(b) && strings.HasPrefix(s, b) {
				amb = true
			}
		}
		return act, ok, amb
	}
	if local != "" {
		// a proper prefix of the token bound in the local keymap is taken by it first
		for k := 1; k < len(b); k++ {
			if _, ok := cat.Seqs[local][b[:k]]; ok {
				return "", true
			}
		}
		act, ok, amb := lookup(local)
		if amb {
			return "", true
		}
		if ok {
			return act, false
		}
	}
	act, ok, amb := lookup(main)
	if amb {
		return "", true
	}
	if ok {
		return act, false
	}
	return "", false
}

func execC06(x *Ctx, sc *wire.Scenario) *wire.Result {
	res := okResult(sc)
	out := runSession(x, sc, sc.Plan, sim.Hooks{}, true)
	absorb(res, out)
	res.Nontrivial = len(out.Waits) > 3
	if out.End == "PANIC" || out.End == "DEADLOCK" || out.End == "LIVELOCK" {
		// crashes are C01's business; nothing to judge here
		res.Counters["skipped:crash"]++
		return res
	}
	// plainUntil: number of leading tokens that resolve, from the live keymaps, to commands of a
	// plain editing repertoire. The vi-command cursor rule and movement purity are only judged
	// inside that prefix: beyond it the editor may be in a mode the public API does not show
	// (replace mode, searches, pending operators started through harness binds, ...).
	plainUntil := 0
	for i, t := range sc.Script {
		before := waitAfter(out, i)
		if before == nil {
			break
		}
		if before.Kind == "arg" {
			if len(t.B) != 1 || t.B[0] < 0x20 || t.B[0] > 0x7e {
				break
			}
			plainUntil = i + 1
			continue
		}
		cmd, amb := resolveToken(x.Cat, &sc.Env, before.Main, before.Local, string(t.B))
		lone := string(t.B) == "\x1b" && before.Main == "vi-insert" && before.Local == ""
		if (amb && !lone) || (!plainCmds[cmd] && !movementCmds[cmd] && !lone) {
			break
		}
		plainUntil = i + 1
	}
	res.Counters["plain_prefix_tokens"] += plainUntil
	// (a) invariants at every input wait
	for i := range out.Waits {
		w := &out.Waits[i]
		n := len([]rune(w.Line))
		where := fmt.Sprintf("at the input wait after %d keys (%s)", w.Tokens, lastCmd(sc, w.Tokens))
		if w.Pos < 0 || w.Pos > n {
			return violation(res, "INVARIANT", "C06.cursor-in-buffer", "cursor-range:"+lastCmd(sc, w.Tokens),
				fmt.Sprintf("cursor %d outside buffer of length %d %s; buffer %q", w.Pos, n, where, w.Line))
		}
		// Not judged at the one wait right after incremental search is left: there the
		// API still hands out the search minibuffer (insert semantics) for one more command.
		leftIsearch := i > 0 && (out.Waits[i-1].Local == "isearch" || (w.Partial > 0 && i > 1 && out.Waits[i-2].Local == "isearch"))
		// judged inside the plain prefix, or wherever the terminal itself shows this very buffer
		// in the input area (then it is the line being edited, not a search minibuffer)
		judged := w.Tokens <= plainUntil || lineShownOnScreen(w)
		if w.Kind == "main" && (w.Main == "vi-command" || w.Main == "vi-move" || w.Main == "vi") && w.Local == "" && n > 0 && w.Pos == n && !leftIsearch && judged {
			// allowed only when the cursor's line is empty
			rs := []rune(w.Line)
			if !(rs[n-1] == '\n') {
				detail := lastCmd(sc, w.Tokens)
				for j := i - 1; j >= 0 && j >= i-2; j-- {
					if out.Waits[j].Local == "menu-select" {
						detail = "leaving-completion-menu"
					}
				}
				return violation(res, "INVARIANT", "C06.vi-command-cursor-on-char", "vi-cursor-past-end:"+detail,
					fmt.Sprintf("vi command mode: cursor %d is past the last character of %q %s", w.Pos, w.Line, where))
			}
		}
		if w.Kind == "main" && (w.Main == "vi-command" || w.Main == "vi-move" || w.Main == "vi") && w.Local == "" && w.Pos > 0 && w.Pos < n && !leftIsearch && judged {
			// inside a multi-line buffer: on the newline that ends a line only when that line is empty
			if rs := []rune(w.Line); rs[w.Pos] == '\n' && rs[w.Pos-1] != '\n' {
				return violation(res, "INVARIANT", "C06.vi-command-cursor-on-char", "vi-cursor-on-the-newline-of-a-non-empty-line:"+lastCmd(sc, w.Tokens),
					fmt.Sprintf("vi command mode: cursor %d is on the newline that ends a non-empty line of %q %s", w.Pos, w.Line, where))
			}
		}
		if w.SelActive && !(w.SelB == -1 && w.SelE == -1) { // (-1,-1) is the API's "no range"
			if w.SelB < 0 || w.SelE < w.SelB || w.SelE > n {
				return violation(res, "INVARIANT", "C06.selection-in-buffer", "selection-range:"+lastCmd(sc, w.Tokens),
					fmt.Sprintf("active selection [%d,%d) outside buffer of length %d %s; buffer %q", w.SelB, w.SelE, n, where, w.Line))
			}
		}
		if w.Mark < -1 || w.Mark > n {
			return violation(res, "INVARIANT", "C06.mark-in-buffer", "mark-range:"+lastCmd(sc, w.Tokens),
				fmt.Sprintf("cursor mark %d outside buffer of length %d %s", w.Mark, n, where))
		}
	}
	// (c) movement purity, (b) returned line == buffer at acceptance
	lastOp, prevCmd := "", ""
	exotic := false
	tainted := false // the previous token may have left a pending key prefix
	// stale[i]: the wait right after incremental search was left, where the API still
	// hands out the search minibuffer for one more command (not judged).
	stale := map[*sim.Snap]bool{}
	for i := 1; i < len(out.Waits); i++ {
		p, w := &out.Waits[i-1], &out.Waits[i]
		if w.Local != "isearch" && (p.Local == "isearch" || (stale[p] && w.Partial > 0)) {
			stale[w] = true
		}
	}
	for i, t := range sc.Script {
		if verbatimModeCmds[t.Cmd] || verbatimAnywhere(x.Cat, &sc.Env, string(t.B)) {
			break
		}
		before := waitAfter(out, i)
		if before != nil && before.Kind == "arg" && len(t.B) == 1 && !stale[before] {
			continue // exactly the one key the parked command asked for: nothing is left pending
		}
		if before == nil || before.Kind != "main" || stale[before] {
			tainted = true
			continue
		}
		cmd, amb := resolveToken(x.Cat, &sc.Env, before.Main, before.Local, string(t.B))
		if verbatimModeCmds[cmd] || verbatimModeCmds[t.Cmd] {
			// from here on typed keys may be inserted verbatim into a minibuffer
			// (non-incremental search, overwrite, bracketed paste): purity is not judged
			break
		}
		wasTainted := tainted
		tainted = amb || cmd == ""
		if amb || cmd == "" || wasTainted {
			prevCmd = ""
			continue
		}
		prevOp := prevCmd
		prevCmd = cmd
		switch cmd {
		case "vi-delete-to", "vi-change-to", "vi-yank-to", "vi-up-case", "vi-down-case", "vi-change-case":
			if before.Local == "" {
				lastOp = cmd
			}
			if before.Main != "vi-command" {
				// an operator started outside vi command mode (only possible through the harness
				// binds) leaves a pending operator the keymaps do not show: purity is not judged further
				exotic = true
			}
		}
		if exotic {
			break
		}
		end := i + 1
		if w := waitAfter(out, end); w != nil && w.Kind == "arg" && end < len(sc.Script) {
			end++ // the command is parked reading one more key: the next token is its argument
			if len(sc.Script[end-1].B) != 1 {
				// only the first key of a multi-key token is the argument, the rest is ordinary input
				tainted = true
				continue
			}
		}
		after := waitAfter(out, end)
		if cmd == "accept-line" && after == nil && i == len(sc.Script)-1 {
			if line, err, ok := firstReturn(out); ok && err == "" && before.Local == "" {
				res.Counters["checked:returned_line"]++
				if line != before.Line {
					return violation(res, "MISMATCH", "C06.returned-line-is-buffer", "returned-line-differs",
						fmt.Sprintf("buffer at acceptance was %q but Readline returned %q", before.Line, line))
				}
			}
			continue
		}
		if after == nil || !movementCmds[cmd] || end > plainUntil {
			continue
		}
		// operator-pending: only judged when the token right before was the yank operator itself
		pureCtx := before.Local == "" || before.Local == "vi-visual" || (before.Local == "vi-opp" && prevOp == "vi-yank-to" && lastOp == "vi-yank-to")
		if !pureCtx || after.Local == "isearch" || after.Local == "menu-select" {
			continue
		}
		if sc.Family == "edit-autosuggest" && before.Pos >= len([]rune(before.Line))-1 {
			continue // at the very end of the buffer a motion takes text from the suggestion: the feature, not an edit
		}
		res.Counters["checked:movement_purity"]++
		if after.Line != before.Line {
			return violation(res, "MISMATCH", "C06.movement-purity", "movement-edits:"+cmd,
				fmt.Sprintf("%s (a movement/copy command) changed the buffer from %q to %q (cursor %d, keymap %s/%s)",
					cmd, before.Line, after.Line, before.Pos, before.Main, before.Local))
		}
	}
	if sc.Index%500 == 0 {
		res.Sample = sample(sc, map[string]any{"waits": len(out.Waits), "end": out.End})
	}
	return res
}

func lastCmd(sc *wire.Scenario, tokens int) string {
	if tokens <= 0 || tokens > len(sc.Script) {
		return "start"
	}
	c := sc.Script[tokens-1].Cmd
	if c == "" {
		c = "?"
	}
	return c
}

// lineShownOnScreen reports whether the first row of the buffer handed out by the API is what
// the terminal shows right after the prompt (at the cell it reported for the last cursor query).
func lineShownOnScreen(w *sim.Snap) bool {
	t := w.Screen
	if t == nil || w.Queries == 0 || w.Line == "" {
		return false
	}
	row := w.AnchorAbsRow - t.Scrolled
	col := w.ReportCol - 1
	if w.ReportWrap {
		row, col = row+1, 0
	}
	if row < 0 || row >= t.H {
		return false
	}
	k := 0
	for _, r := range w.Line {
		if r == '\n' || col >= t.W {
			break
		}
		if r < 0x20 || r > 0x7e {
			return false // only plain ASCII rows are used as evidence
		}
		if t.Rows[row][col].S != string(r) && !(r == ' ' && t.Rows[row][col].Blank()) {
			return false
		}
		col++
		k++
	}
	// and nothing else follows on that row (the minibuffer of a search is drawn elsewhere)
	if col < t.W && !strings.Contains(w.Line, "\n") && !t.Rows[row][col].Blank() {
		return false
	}
	return k > 0
}
