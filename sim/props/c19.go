package props

import (
	"fmt"
	"reflect"
	"regexp"
	"strings"

	"github.com/reeflective/readline"
	"github.com/reeflective/readline/inputrc"

	"verifsim/sim"
	"verifsim/wire"
)

// ---------------------------------------------------------------- C19: notation and dumps round-trip

func init() {
	register(&Family{ID: "C19", Gen: genC19, Exec: execC19, Budget: budget(3000, 120000)})
}

type c19X struct {
	Kind  string       `json:"kind"`          // seq | default-binds | dump-functions | dump-variables | dump-macros | print-macro
	Seq   []int        `json:"seq,omitempty"` // runes
	Vars  []string     `json:"vars,omitempty"`
	Binds []c19Bind    `json:"binds,omitempty"`
	K     []wire.Token `json:"k,omitempty"`
	// Prelude: lines of an earlier file read by the same parser object before it parses the dump back
	// (an application keeps one inputrc.Parser; the file it read first ends in a section of its own).
	Prelude []string `json:"prelude,omitempty"`
}

type c19Bind struct {
	Seq   []int  `json:"seq"`
	Macro string `json:"macro,omitempty"` // macro body as runes string
	Func  string `json:"func,omitempty"`
}

func genC19(g *Gen, tier string, idx int) *wire.Scenario {
	sc := &wire.Scenario{Prop: "C19", Family: "dump"}
	x := c19X{}
	env := wire.Env{Mode: "emacs", W: 200, H: 50, Prompt: "> "}
	switch {
	case idx < 256:
		// exhaustive: every rune 0x00..0xFF alone
		x.Kind = "seq"
		x.Seq = []int{idx}
	case idx == 256:
		x.Kind = "default-binds"
	case idx%7 == 0:
		x.Kind = "dump-variables"
		for i := 0; i < g.Range(0, 6); i++ {
			v := Pick(g, boolVars)
			x.Vars = append(x.Vars, fmt.Sprintf("set %s %s", v, Pick(g, []string{"on", "off"})))
		}
		if g.P(50) {
			x.Vars = append(x.Vars, fmt.Sprintf("set completion-query-items %d", g.Range(10, 300)))
		}
		if g.P(50) {
			x.Vars = append(x.Vars, "set bell-style "+Pick(g, []string{"none", "visible", "audible"}))
		}
	case idx%7 == 1 || idx%7 == 2:
		x.Kind = Pick(g, []string{"dump-functions", "dump-macros"})
		for i := 0; i < g.Range(1, 6); i++ {
			b := c19Bind{}
			for j := 0; j < g.Range(1, 4); j++ {
				b.Seq = append(b.Seq, g.c19Rune())
			}
			b.Seq = append([]int{0x1d}, b.Seq...) // a lead the default tables do not use
			if x.Kind == "dump-macros" {
				var body []rune
				for j := 0; j < g.Range(1, 8); j++ {
					body = append(body, rune(g.c19Rune()))
				}
				b.Macro = string(body)
			} else {
				b.Func = Pick(g, []string{"beginning-of-line", "end-of-line", "kill-line", "undo", "forward-word", "Kill-Line", "UNDO", "Transpose-Chars", "no-such-function", "App-Reload", "appSync", "app-plain"})
			}
			x.Binds = append(x.Binds, b)
		}
	case idx%7 == 3:
		x.Kind = "print-macro"
		for i := 0; i < g.Range(1, 8); i++ {
			switch g.N(4) {
			case 0:
				x.K = append(x.K, tok(string(Pick(g, []rune("ab \"\\'z;"))), "self-insert"))
			case 1:
				x.K = append(x.K, tok(string([]byte{byte(Pick(g, []int{1, 2, 5, 6, 11, 25}))}), "control-key"))
			case 2:
				x.K = append(x.K, tok("\x1b"+Pick(g, []string{"f", "b", "d"}), "meta-key"))
			default:
				x.K = append(x.K, tok(Pick(g, []string{"\x1b[C", "\x1b[D", "\x1b[A"}), "arrow-key"))
			}
		}
	default:
		x.Kind = "seq"
		for i := 0; i < g.Range(2, 6); i++ {
			x.Seq = append(x.Seq, g.c19Rune())
		}
	}
	if strings.HasPrefix(x.Kind, "dump-") && g.P(50) {
		x.Prelude = []string{"set bell-style none", "set keymap " + Pick(g, []string{"vi-insert", "vi-command", "emacs-ctlx", "emacs", "vi-move"}),
			"\"\\C-x\\C-r\": re-read-init-file", "$if mode=vi", "set show-mode-in-prompt on"}
		if g.P(70) {
			x.Prelude = append(x.Prelude, "$endif")
		}
	}
	km := "emacs"
	env.AppCommands = []string{"App-Reload", "appSync", "app-plain"} // registered by the application; names are matched as written
	env.Binds = append(env.Binds, g.Cat.Extra...)
	switch x.Kind {
	case "dump-functions", "dump-variables", "dump-macros":
		env.Inputrc = x.Vars
		for _, b := range x.Binds {
			var rs []rune
			for _, r := range b.Seq {
				rs = append(rs, rune(r))
			}
			bs := wire.BindSpec{Keymap: km, Seq: wire.Bytes(string(rs))}
			if b.Macro != "" {
				bs.Macro = true
				bs.Action = inputrc.EscapeMacro(b.Macro)
			} else {
				bs.Action = b.Func
			}
			env.Binds = append(env.Binds, bs)
		}
		sc.Script = []wire.Token{tok("x", "self-insert"), tok("\x1b1", "digit-argument"), tok(g.Cat.ShortSeqFor(km, x.Kind), x.Kind)}
	case "print-macro":
		sc.Script = append(sc.Script, tok("\x18(", "start-kbd-macro"))
		sc.Script = append(sc.Script, x.K...)
		sc.Script = append(sc.Script, tok("\x18)", "end-kbd-macro"), tok(g.Cat.ShortSeqFor(km, "print-last-kbd-macro"), "print-last-kbd-macro"))
	}
	sc.Env = env
	sc.X = mustJSON(x)
	sc.Plan = wire.Plan{Policy: "canonical", Class: "S0"}
	return sc
}

// c19Notation: runes whose notation contains a backslash or a letter that names an escape
// (\M-\ is how 0xDC is written; \a \b \d \e \f \n \r \t \v \x \C- \M- are the escapes), next to each other.
var c19Notation = []rune{0xDC, 0xDC, '\\', 0x9C, 0x1C, 'a', 'b', 'd', 'e', 'f', 'n', 'r', 't', 'v', 'x', 'C', 'M', '-', '0', '1', '7', '"', '\'', 0x1B, 0x7F, 0xFF, 0xAD, 0xC3, 0xCD, 0xED}

func (g *Gen) c19Rune() int {
	switch g.N(6) {
	case 0:
		return g.N(0x20)
	case 5:
		return int(Pick(g, c19Notation))
	case 1:
		return g.Range(0x80, 0xFF)
	case 2:
		return int(Pick(g, append(append([]rune{}, wideText...), latin1Text...)))
	default:
		return g.Range(0x20, 0x7F)
	}
}

func runeClass(r int) string {
	switch {
	case r < 0x20 || r == 0x7f:
		return "control"
	case r < 0x80:
		return "ascii"
	case r < 0xA0:
		return "meta-control-0x80-0x9f"
	case r <= 0xFF:
		return "meta-0xa0-0xff"
	}
	return "unicode"
}

var csiRx = regexp.MustCompile(`\x1b\[[0-9;?]*[ -/]*[@-~]`)

func execC19(x *Ctx, sc *wire.Scenario) *wire.Result {
	res := okResult(sc)
	var xx c19X
	jsonInto(sc.X, &xx)
	res.Sessions = 1
	res.Nontrivial = true
	res.SigHash = fmt.Sprintf("%016x", hash2(string(sc.X), uint64(sc.Index)))
	roundTrip := func(s string, what string) bool {
		for _, f := range []struct {
			name string
			esc  func(string) string
		}{{"Escape", inputrc.Escape}, {"EscapeMacro", inputrc.EscapeMacro}} {
			e := f.esc(s)
			u := inputrc.Unescape(e)
			if u != s {
				// named after the first rune that does not survive on its own; a sequence whose runes all
				// do is another defect (of the notation of sequences, not of a rune)
				cls := ""
				for _, r := range s {
					if f.esc(string(r)) != "" && inputrc.Unescape(f.esc(string(r))) != string(r) {
						cls = runeClass(int(r))
						break
					}
				}
				if cls == "" {
					cls = "all-runes-round-trip-individually"
					if len([]rune(s)) == 1 {
						cls = runeClass(int([]rune(s)[0]))
					}
				}
				violation(res, "MISMATCH", "C19.escape-unescape-identity", "roundtrip:"+f.name+":"+cls+":"+what,
					fmt.Sprintf("%s(%q) = %q, which unescapes to %q", f.name, s, e, u))
				return false
			}
		}
		return true
	}
	switch xx.Kind {
	case "seq":
		var rs []rune
		for _, r := range xx.Seq {
			rs = append(rs, rune(r))
		}
		what := "sequence"
		if len(rs) == 1 {
			what = "single-rune"
		}
		roundTrip(string(rs), what)
		return res
	case "default-binds":
		sh := readline.NewShell()
		n := 0
		for _, km := range sortedKeys(sh.Config.Binds) {
			binds := sh.Config.Binds[km]
			for _, seq := range sortedKeys(binds) {
				n++
				if !roundTrip(seq, "default-binding") {
					res.Msg = "keymap " + km + ": " + res.Msg
					return res
				}
			}
		}
		res.Counters["default_bindings_checked"] = n
		return res
	}
	// dump commands: capture the raw terminal stream between the dispatch of the command and the next wait
	var live *inputrc.Config
	var lastMacro string
	hooks := sim.Hooks{OnEnd: func(s *sim.Session, sh *readline.Shell) { live = sh.Config }}
	_ = lastMacro
	spec := &sim.Spec{Env: sc.Env, Script: sc.Script, Plan: sc.Plan, Hooks: hooks, WantRaw: true, WantEvents: x.Trace}
	out := sim.Run(x.T, x.P, spec)
	absorb(res, out)
	if out.End == "PANIC" || out.End == "DEADLOCK" || out.End == "LIVELOCK" || live == nil {
		res.Counters["skipped:crash"]++
		return res
	}
	before := waitAfter(out, len(sc.Script)-1)
	after := waitAfter(out, len(sc.Script))
	if before == nil || after == nil || after.OutOff > len(out.RawOut) {
		res.Counters["skipped:no_capture"]++
		return res
	}
	raw := string(out.RawOut[before.OutOff:after.OutOff])
	raw = csiRx.ReplaceAllString(raw, "")
	raw = strings.ReplaceAll(raw, "\r", "")
	var lines []string
	for _, l := range strings.Split(raw, "\n") {
		l = strings.TrimRight(l, " ")
		switch xx.Kind {
		case "dump-variables":
			if strings.HasPrefix(l, "set ") {
				lines = append(lines, l)
			}
		default:
			if strings.HasPrefix(l, "\"") {
				lines = append(lines, l)
			}
		}
	}
	text := strings.Join(lines, "\n") + "\n"
	switch xx.Kind {
	case "print-macro":
		var typed strings.Builder
		for _, t := range xx.K {
			typed.Write(t.B)
		}
		// the printed macro is the last non-empty line of the capture
		printed := ""
		for _, l := range strings.Split(raw, "\n") {
			if strings.TrimSpace(l) != "" && !strings.HasPrefix(l, ">") {
				printed = l
			}
		}
		if printed == "" {
			res.Counters["skipped:no_capture"]++
			return res
		}
		got := inputrc.Unescape(printed)
		if got != typed.String() {
			return violation(res, "MISMATCH", "C19.printed-macro-round-trips", "print-last-kbd-macro",
				fmt.Sprintf("recorded keys %q; print-last-kbd-macro printed %q, which unescapes to %q", typed.String(), printed, got))
		}
		return res
	}
	cfg := inputrc.NewDefaultConfig()
	if xx.Kind != "dump-variables" {
		cfg = inputrc.NewConfig()
	}
	parseBack := func() error { return inputrc.ParseBytes([]byte(text), cfg, inputrc.WithHaltOnErr(true)) }
	if len(xx.Prelude) > 0 {
		// The same parser object has read another file before: the dump must parse back to the same
		// configuration as with a parser that has read nothing. (Judged apart from the comparison with
		// the live configuration below, whose known findings would otherwise cover a difference here.)
		p := inputrc.New(inputrc.WithHaltOnErr(true))
		_ = p.Parse(strings.NewReader(strings.Join(xx.Prelude, "\n")+"\n"), inputrc.NewConfig())
		used := inputrc.NewDefaultConfig()
		if xx.Kind != "dump-variables" {
			used = inputrc.NewConfig()
		}
		errUsed := p.Parse(strings.NewReader(text), used)
		fresh := inputrc.NewDefaultConfig()
		if xx.Kind != "dump-variables" {
			fresh = inputrc.NewConfig()
		}
		errFresh := parseBackInto(text, fresh)
		res.Counters["parsed_back_by_a_used_parser"]++
		if fmt.Sprint(errUsed) != fmt.Sprint(errFresh) || !reflect.DeepEqual(used.Binds, fresh.Binds) || !reflect.DeepEqual(used.Vars, fresh.Vars) {
			diff := ""
			for _, km := range sortedKeys(fresh.Binds) {
				if !reflect.DeepEqual(used.Binds[km], fresh.Binds[km]) {
					diff += fmt.Sprintf(" keymap %s: %d binds with a new parser, %d with the used one;", km, len(fresh.Binds[km]), len(used.Binds[km]))
				}
			}
			for _, km := range sortedKeys(used.Binds) {
				if _, ok := fresh.Binds[km]; !ok {
					diff += fmt.Sprintf(" keymap %s: none with a new parser, %d with the used one;", km, len(used.Binds[km]))
				}
			}
			return violation(res, "MISMATCH", "C19.dump-parses-back", "parse-back-depends-on-what-the-parser-read-before:"+xx.Kind,
				fmt.Sprintf("the output of %s parses back differently with a parser object that has read another file before (%q): errors %v / %v;%s",
					xx.Kind, xx.Prelude, errUsed, errFresh, diff))
		}
	}
	if err := parseBack(); err != nil {
		return violation(res, "MISMATCH", "C19.dump-parses-back", "dump-unparsable:"+xx.Kind,
			fmt.Sprintf("the output of %s (inputrc format) does not parse back: %v\n%s", xx.Kind, err, firstN(text, 600)))
	}
	res.Counters["dump_lines"] += len(lines)
	switch xx.Kind {
	case "dump-variables":
		for _, name := range sortedKeys(live.Vars) {
			v := live.Vars[name]
			gv, ok := cfg.Vars[name]
			if !ok || fmt.Sprint(gv) != fmt.Sprint(v) {
				kind := fmt.Sprintf("%T", v)
				return violation(res, "MISMATCH", "C19.dumped-variables-round-trip", "dump-variables:"+kind,
					fmt.Sprintf("variable %s is %v (%T) in the live configuration; dump-variables printed it and parsing the dump back gives %v (present=%v)", name, v, v, gv, ok))
			}
		}
	case "dump-functions", "dump-macros":
		wantMacro := xx.Kind == "dump-macros"
		// names the generator binds keys to although no function is registered under them (other letter case, unknown)
		notAFunction := map[string]bool{"Kill-Line": true, "UNDO": true, "Transpose-Chars": true, "no-such-function": true}
		// the other direction first: a function bind that the dump prints is a bind the configuration holds
		// (judged before the comparison below, whose listed findings stop it at the first bind that does not survive)
		if !wantMacro {
			liveAll := live.Binds["emacs"]
			for _, gs := range sortedKeys(cfg.Binds["emacs"]) {
				gb := cfg.Binds["emacs"][gs]
				if gb.Macro || gb.Action == "" {
					continue
				}
				held := true
				for _, ls := range sortedKeys(liveAll) {
					// the key as the configuration has it (a sequence whose notation does not survive is the other rule's business)
					if lb := liveAll[ls]; ls == gs || ConvertMeta(ls) == ConvertMeta(gs) {
						held = !lb.Macro && lb.Action == gb.Action
						if held {
							break
						}
					}
				}
				if !held {
					return violation(res, "MISMATCH", "C19.dumped-binds-round-trip", "dump-functions:prints-a-function-the-key-is-not-bound-to",
						fmt.Sprintf("dump-functions printed %q: %s, but in the live emacs keymap that key is bound to %+v", inputrc.Escape(gs), gb.Action, liveAll[gs]))
				}
			}
		}
		liveB := map[string]inputrc.Bind{}
		for seq, b := range live.Binds["emacs"] {
			if b.Macro == wantMacro && (wantMacro || (b.Action != "" && !notAFunction[b.Action])) {
				liveB[seq] = b // (a key bound to a name that is no function is not a function bind: the dump does not print it)
			}
		}
		gotB := cfg.Binds["emacs"]
		for _, seq := range sortedKeys(liveB) {
			b := liveB[seq]
			gb, ok := gotB[seq]
			if !ok {
				// same typed form is accepted
				for _, gs := range sortedKeys(gotB) {
					if ConvertMeta(gs) == ConvertMeta(seq) {
						gb, ok = gotB[gs], true
					}
				}
			}
			same := ok && gb.Macro == b.Macro && (gb.Action == b.Action || (b.Macro && inputrc.Unescape(gb.Action) == inputrc.Unescape(b.Action)))
			if !same {
				// Which runes of this bind do not survive Escape/Unescape on their own? If all of
				// them do, the dump's formatting is at fault, not the notation (a different finding).
				cls := "all-runes-round-trip-individually"
				for _, r := range seq + map[bool]string{true: inputrc.Unescape(b.Action), false: ""}[b.Macro] {
					if inputrc.Unescape(inputrc.Escape(string(r))) != string(r) || inputrc.Unescape(inputrc.EscapeMacro(string(r))) != string(r) {
						cls = runeClass(int(r))
					}
				}
				if ok {
					cls += ":parsed-back-differently"
				} else {
					cls += ":missing-after-parsing-back"
				}
				return violation(res, "MISMATCH", "C19.dumped-binds-round-trip", xx.Kind+":"+cls,
					fmt.Sprintf("live bind %q -> %q (macro=%v) is not reproduced by parsing the %s output back: got %+v (present=%v)", seq, b.Action, b.Macro, xx.Kind, gb, ok))
			}
		}
	}
	if sc.Index%300 == 0 {
		res.Sample = map[string]any{"index": sc.Index, "kind": xx.Kind, "captured_lines": len(lines), "first_lines": firstN(text, 300)}
	}
	return res
}

func parseBackInto(text string, cfg *inputrc.Config) error {
	return inputrc.ParseBytes([]byte(text), cfg, inputrc.WithHaltOnErr(true))
}

func firstN(s string, n int) string {
	if len(s) > n {
		return s[:n] + "…"
	}
	return s
}
