package props

import (
	"fmt"
	"strings"

	"verifsim/sim"
	"verifsim/wire"
)

// ---------------------------------------------------------------- C07: undo / redo

func init() {
	register(&Family{ID: "C07", Gen: genC07, Exec: execC07, Budget: budget(5000, 800000)})
}

var c07Edits = []string{"backward-delete-char", "delete-char", "kill-line", "unix-word-rubout", "kill-word", "yank",
	"transpose-chars", "capitalize-word", "upcase-word", "down-case-word", "backward-kill-line", "transpose-words"}
var c07Moves = []string{"beginning-of-line", "end-of-line", "backward-char", "forward-char", "backward-word", "forward-word"}

func genC07(g *Gen, tier string, idx int) *wire.Scenario {
	vi := g.P(30)
	mode := "emacs"
	if vi {
		mode = "vi"
	}
	sc := &wire.Scenario{Prop: "C07", Family: "undo"}
	env := wire.Env{Mode: mode, Prompt: "> ", W: 80, H: 30, NoDefaultHistory: true}
	uni := g.P(35)
	if uni {
		env.History = []wire.HistSrc{{Kind: "memory", Name: "h0", Entries: []string{"premier mot", "héllo wörld ünï", "日本語 テキスト ab"}}}
	} else if g.P(50) {
		env.History = []wire.HistSrc{{Kind: "memory", Name: "h0", Entries: []string{"first entry", "second one here", "third"}}}
	} else {
		env.History = []wire.HistSrc{{Kind: "memory", Name: "h0"}}
	}
	env.Binds = g.Cat.Extra
	sc.Env = env
	n := g.Range(2, 14)
	if g.P(15) {
		n = g.Range(15, 30)
	}
	km := "emacs"
	add := func(cmd string) {
		if seq := g.Cat.ShortSeqFor(km, cmd); seq != "" {
			sc.Script = append(sc.Script, tok(seq, cmd))
		}
	}
	if !vi && len(env.History[0].Entries) > 0 && g.P(15) {
		// an earlier prompt of the same shell, left while a recalled entry was shown: nothing of it
		// belongs to the undo history of the next prompt's line
		for _, r := range "gi" {
			sc.Script = append(sc.Script, tok(string(r), "warm:self-insert"))
		}
		for i := 0; i < g.Range(1, 2); i++ {
			sc.Script = append(sc.Script, tok(g.Cat.ShortSeqFor(km, "previous-history"), "warm:history-walk"))
		}
		sc.Script = append(sc.Script, tok("\x03", "warm:abort"))
	}
	if uni && !vi {
		// start from a recalled multi-byte line
		for i := 0; i < g.Range(1, 2); i++ {
			add("previous-history")
			sc.Script[len(sc.Script)-1].Cmd = "history-walk"
		}
	}
	if !vi && len(env.History[0].Entries) > 1 && g.P(18) {
		// a jump over several entries, then down onto entries never shown before, and a first edit there
		add(Pick(g, []string{"beginning-of-history", "beginning-of-history", "end-of-history"}))
		sc.Script[len(sc.Script)-1].Cmd = "history-jump:" + sc.Script[len(sc.Script)-1].Cmd
		for i := 0; i < g.Range(1, 2); i++ {
			add("next-history")
			sc.Script[len(sc.Script)-1].Cmd = "history-walk"
		}
		if g.P(60) {
			for i := 0; i < g.Range(1, 2); i++ {
				sc.Script = append(sc.Script, tok(string(Pick(g, []rune("abc de"))), "self-insert"))
			}
		}
	}
	if vi {
		km = "vi-insert"
		inInsert := true
		for i := 0; i < n; i++ {
			if inInsert && g.P(10) && len(env.History[0].Entries) > 0 {
				// the arrow keys of vi insert mode: up/down-line-or-search (a prefix search from the first/last line)
				sc.Script = append(sc.Script, tok(Pick(g, []string{"\x1b[A", "\x1b[A", "\x1b[B"}), "history-search-walk"))
				continue
			}
			if inInsert {
				switch g.N(6) {
				case 0:
					sc.Script = append(sc.Script, tok("\x1b", "vi-movement-mode"))
					inInsert = false
					km = "vi-command"
				case 1:
					add("backward-delete-char")
				default:
					sc.Script = append(sc.Script, tok(string(Pick(g, []rune("abc de"))), "self-insert"))
				}
				continue
			}
			switch g.N(10) {
			case 0, 1, 2:
				sc.Script = append(sc.Script, tok("u", "undo"))
			case 3, 4:
				add("redo")
			case 5:
				sc.Script = append(sc.Script, tok(Pick(g, []string{"x", "X", "D", "~", "dw", "db", "p"}), "vi-edit"))
			case 6:
				sc.Script = append(sc.Script, tok(Pick(g, []string{"i", "a", "A", "I"}), "vi-insert-entry"))
				inInsert = true
				km = "vi-insert"
			case 7:
				sc.Script = append(sc.Script, tok(Pick(g, []string{"k", "j"}), "history-walk"))
			default:
				sc.Script = append(sc.Script, tok(Pick(g, []string{"h", "l", "w", "b", "0", "$"}), "vi-move"))
			}
		}
	} else {
		for i := 0; i < n; i++ {
			switch g.N(12) {
			case 0, 1, 2:
				sc.Script = append(sc.Script, tok(string(Pick(g, []rune("abc de"))), "self-insert"))
			case 3, 4:
				add(Pick(g, c07Edits))
			case 5, 6, 7:
				sc.Script = append(sc.Script, tok(Pick(g, []string{"\x1f", "\x18\x15"}), "undo"))
			case 8, 9:
				add("redo")
			case 10:
				add(Pick(g, []string{"previous-history", "next-history"}))
				sc.Script[len(sc.Script)-1].Cmd = "history-walk"
			default:
				add(Pick(g, c07Moves))
			}
		}
	}
	revertFam := false
	if !vi && g.P(12) {
		// revert-line throws the line's changes and its undo history away; what is typed after it
		// must be undoable back to the line's initial content like anything else
		add("revert-line")
		for i := 0; i < g.Range(1, 3); i++ {
			if g.P(80) {
				sc.Script = append(sc.Script, tok(string(Pick(g, []rune("abc de"))), "self-insert"))
			} else {
				add("yank")
			}
		}
		revertFam = true
	}
	// a closing block undo^n redo^n, then undo until the start
	if g.P(50) && !revertFam {
		k := g.Range(1, 4)
		for i := 0; i < k; i++ {
			if vi && km == "vi-insert" {
				sc.Script = append(sc.Script, tok("\x1b", "vi-movement-mode"))
				km = "vi-command"
			}
			if vi {
				sc.Script = append(sc.Script, tok("u", "undo"))
			} else {
				sc.Script = append(sc.Script, tok("\x1f", "undo"))
			}
		}
		for i := 0; i < k; i++ {
			add("redo")
		}
	}
	if g.P(40) || revertFam {
		if vi && km == "vi-insert" {
			sc.Script = append(sc.Script, tok("\x1b", "vi-movement-mode"))
			km = "vi-command"
		}
		for i := 0; i < len(sc.Script)+3 && i < 45; i++ {
			if vi {
				sc.Script = append(sc.Script, tok("u", "undo-all"))
			} else {
				sc.Script = append(sc.Script, tok("\x1f", "undo-all"))
			}
		}
	}
	sc.Plan = wire.Plan{Policy: "canonical", Class: "S0"}
	return sc
}

func execC07(x *Ctx, sc *wire.Scenario) *wire.Result {
	res := okResult(sc)
	warm := 0
	for _, t := range sc.Script {
		if !strings.HasPrefix(t.Cmd, "warm:") {
			break
		}
		warm++
	}
	hooks := sim.Hooks{}
	if warm > 0 {
		hooks.Body = func(s *sim.Session, sh *readlineShell) {
			s.Readline(sh)
			s.Readline(sh)
		}
	}
	out := runSession(x, sc, sc.Plan, hooks, false)
	absorb(res, out)
	if out.End == "PANIC" || out.End == "DEADLOCK" || out.End == "LIVELOCK" {
		res.Counters["skipped:crash"]++
		return res
	}
	if warm > 0 && len(out.Returns) == 0 {
		res.Counters["skipped:warm_up_call_did_not_return"]++
		return res
	}
	var entries []string
	if len(sc.Env.History) > 0 {
		entries = sc.Env.History[0].Entries
	}
	n := len(entries)
	// line identity: -1 = the line being typed, i = history entry i from newest
	ident := -1
	seen := map[int][]string{-1: {""}}
	// depth[id] bounds the undo stack of a line: its initial content plus one state per
	// command (other than undo/redo) that changed it.
	depth := map[int]int{-1: 1}
	// per line (each line has its own undo history): the buffer the last effective undo
	// produced, whether something was undone, and whether the line was edited since
	afterUndo := map[int]string{}
	undoneSomething := map[int]bool{}
	editedSinceUndo := map[int]bool{}
	initial := func(id int) string {
		if id < 0 {
			return ""
		}
		return entries[n-1-id]
	}
	member := func(id int, s string) bool {
		for _, v := range seen[id] {
			if v == s {
				return true
			}
		}
		return false
	}
	type blk struct {
		start        string
		undos        int
		redos        int
		phase        int // 1 = in undos, 2 = in redos
		redosAtStart int
		saturated    bool // an undo of the block found nothing left to undo
	}
	var b blk
	walked := false
	redosBefore := 0
	consecutiveUndos := 0
	identKnown := true
	for i, t := range sc.Script {
		if i < warm {
			continue // the earlier prompt
		}
		before := waitAfter(out, i)
		after := waitAfter(out, i+1)
		if before == nil || after == nil || before.Kind != "main" || after.Kind != "main" {
			identKnown = false
			b = blk{}
			consecutiveUndos = 0
			continue
		}
		cmd := t.Cmd
		if cmd == "history-search-walk" {
			// which line this lands on depends on the text before the cursor: the line shown says it
			walked = true
			b = blk{}
			consecutiveUndos = 0
			if after.Line == before.Line {
				continue
			}
			found := -2
			for id := 0; id < n; id++ {
				if entries[n-1-id] == after.Line {
					if found != -2 {
						found = -3 // two equal entries
					}
					if found == -2 {
						found = id
					}
				}
			}
			if found >= 0 && !member(-1, after.Line) {
				ident = found
				if _, ok := seen[ident]; !ok {
					seen[ident] = []string{initial(ident)}
					depth[ident] = 1
				}
			} else if member(-1, after.Line) && found < 0 {
				ident = -1
			} else {
				identKnown = false
			}
			continue
		}
		if strings.HasPrefix(cmd, "history-jump:") {
			if n > 0 {
				if strings.HasSuffix(cmd, "beginning-of-history") {
					ident = n // one above the oldest: the walk below steps down to it
				} else {
					ident = 0
				}
				t.B = wire.Bytes("") // "down"
			}
			cmd = "history-walk"
		}
		switch cmd {
		case "history-walk":
			walked = true
			// trivial walk model (no search commands in this alphabet)
			if n > 0 {
				up := string(t.B) == "k" || string(t.B) == x.Cat.ShortSeqFor("emacs", "previous-history")
				if up && ident < n-1 {
					ident++
				} else if !up && ident > -1 {
					ident--
				}
			}
			if _, ok := seen[ident]; !ok {
				seen[ident] = []string{initial(ident)}
				depth[ident] = 1
			}
			if !member(ident, after.Line) {
				// an edited history line is re-shown edited; the identity model may also be off: stop judging identities
				if after.Line != initial(ident) && !member(ident, after.Line) {
					identKnown = member(-1, after.Line) && ident == -1
				}
				seen[ident] = append(seen[ident], after.Line)
			}
			b = blk{}
			consecutiveUndos = 0
			continue
		}
		isUndo := cmd == "undo" || cmd == "undo-all"
		isRedo := cmd == "redo"
		if isUndo {
			res.Counters["checked:undo"]++
			res.Nontrivial = true
			if identKnown && after.Line != before.Line && !member(ident, after.Line) {
				return violation(res, "MISMATCH", "C07.undo-yields-earlier-state", "undo-foreign-state",
					fmt.Sprintf("undo turned %q into %q, which was never shown before for this line (earlier states: %q)", before.Line, after.Line, seen[ident]))
			}
			consecutiveUndos++
			if identKnown && consecutiveUndos > depth[ident]+1 && after.Line != initial(ident) {
				return violation(res, "MISMATCH", "C07.undo-reaches-initial", "undo-never-reaches-initial",
					fmt.Sprintf("%d consecutive undos over %d states of this line end at %q, not at the line's initial content %q", consecutiveUndos, depth[ident], after.Line, initial(ident)))
			}
			if b.phase == 0 {
				b = blk{start: before.Line, phase: 1, redosAtStart: redosBefore}
			}
			if b.phase == 1 {
				b.undos++
			} else {
				b = blk{start: before.Line, phase: 1, undos: 1, redosAtStart: redosBefore}
			}
			if after.Line != before.Line {
				undoneSomething[ident] = true
				editedSinceUndo[ident] = false
				afterUndo[ident] = after.Line
			} else {
				// Nothing was left to undo: the n redos that follow legitimately go further
				// forward than the block's start when a redo branch exists (any linear undo
				// does), so "n undos then n redos" is only judged over effective undos.
				b.saturated = true
			}
		} else {
			consecutiveUndos = 0
		}
		if isRedo {
			res.Counters["checked:redo"]++
			if editedSinceUndo[ident] && undoneSomething[ident] && before.Line == afterUndo[ident] {
				// edits that cancel out (insertions of one vi insert session, then deleted again)
				// leave the very state the undo produced: a snapshot undo cannot tell, not judged
				res.Counters["skipped:net_zero_edit_before_redo"]++
				editedSinceUndo[ident] = false
			} else if identKnown && editedSinceUndo[ident] && undoneSomething[ident] && after.Line != before.Line {
				return violation(res, "MISMATCH", "C07.edit-discards-redo-branch", "redo-after-edit",
					fmt.Sprintf("after undo, a new edit and then redo, redo changed the buffer from %q to %q (the redo branch should be gone)", before.Line, after.Line))
			}
			if b.phase == 1 || b.phase == 2 {
				b.phase = 2
				b.redos++
				if b.redos == b.undos {
					res.Counters["checked:undo_redo_block"]++
					if b.saturated {
						res.Counters["skipped:saturated_undo_block"]++
					} else if after.Line != b.start {
						cls := "undo-n-redo-n"
						if b.undos == 1 {
							cls += ":n=1"
						} else {
							cls += ":n>1"
						}
						for _, r := range b.start + after.Line {
							if r > 0x7f {
								cls += ":multi-byte-line"
								break
							}
						}
						if walked {
							cls += ":after-history-walk"
						}
						if b.redosAtStart > 0 {
							cls += ":after-earlier-redo"
						}
						return violation(res, "MISMATCH", "C07.redo-reverses-undo", cls,
							fmt.Sprintf("%d undos followed by %d redos: buffer was %q before the block and is %q after it", b.undos, b.redos, b.start, after.Line))
					}
					b = blk{}
				}
			}
		}
		if isRedo {
			redosBefore++
			if after.Line != before.Line && !editedSinceUndo[ident] {
				afterUndo[ident] = after.Line // the state now shown, out of the undo history
			}
		}
		if !isUndo && !isRedo {
			b = blk{}
			if after.Line != before.Line {
				editedSinceUndo[ident] = true
				depth[ident]++
			}
		}
		if !member(ident, after.Line) {
			seen[ident] = append(seen[ident], after.Line)
		}
	}
	if sc.Index%500 == 0 {
		res.Sample = sample(sc, map[string]any{"states": seen[-1]})
	}
	return res
}
