// Package props holds, per property, the scenario generator (workload,
// schedule and fault plan) and the executor with its oracle.
package props

import (
	"runtime"

	"encoding/json"
	"fmt"
	"github.com/reeflective/readline"
	"math/rand/v2"
	"regexp"
	"sort"
	"strings"
	"testing"

	"verifsim/sim"
	"verifsim/wire"
)

// Ctx is what an executor gets.
type Ctx struct {
	T      *testing.T
	P      *sim.Proc
	Cat    *Catalog
	Trace  bool
	Traces []any
	// Beat tells the orchestrator that the executor is alive while it works outside the
	// scheduler (file replays of megabytes, large parses); nil-safe through beat().
	Beat func()
}

func (x *Ctx) beat() {
	if x != nil && x.Beat != nil {
		x.Beat()
	}
}

// Family is the machinery of one property.
type Family struct {
	ID   string
	Gen  func(g *Gen, tier string, idx int) *wire.Scenario
	Exec func(x *Ctx, sc *wire.Scenario) *wire.Result
	// Budget returns how many scenarios a tier runs.
	Budget func(tier string) int
}

// Registry maps property ids to families.
var Registry = map[string]*Family{}

func register(f *Family) { Registry[f.ID] = f }

// Gen is the seeded generator context: every random choice of scenario
// generation comes from R, which is derived from (seed, property, index).
type Gen struct {
	R   *rand.Rand
	Cat *Catalog
}

// NewGen derives the generator for one scenario.
func NewGen(cat *Catalog, seed uint64, prop string, idx int) *Gen {
	h := uint64(1469598103934665603)
	for _, c := range prop {
		h = (h ^ uint64(c)) * 1099511628211
	}
	return &Gen{R: rand.New(rand.NewPCG(seed^h, uint64(idx)*0x9e3779b97f4a7c15+h)), Cat: cat}
}

func (g *Gen) N(n int) int {
	if n <= 0 {
		return 0
	}
	return g.R.IntN(n)
}
func (g *Gen) Range(lo, hi int) int { return lo + g.N(hi-lo+1) }
func (g *Gen) P(pct int) bool       { return g.N(100) < pct }
func (g *Gen) Seed() uint64         { return g.R.Uint64() }

func Pick[T any](g *Gen, xs []T) T { return xs[g.N(len(xs))] }

// ---------------------------------------------------------------- results

func okResult(sc *wire.Scenario) *wire.Result {
	return &wire.Result{Prop: sc.Prop, Index: sc.Index, Verdict: "ok", Counters: map[string]int{}}
}

func violation(res *wire.Result, class, oracle, sig, msg string) *wire.Result {
	if res.Verdict == "violation" {
		return res // keep the first
	}
	res.Verdict = "violation"
	res.Class = class
	res.Oracle = oracle
	res.Sig = sig
	if len(msg) > 1500 {
		msg = msg[:1500] + "…"
	}
	res.Msg = msg
	return res
}

// absorb accumulates the accounting of one session outcome into a result.
func absorb(res *wire.Result, out *sim.Outcome) {
	res.Steps += out.Steps
	res.Sessions++
	for k, v := range out.Counters {
		res.Counters[k] += v
	}
	res.Counters["end:"+out.End]++
	res.SigHash = fmt.Sprintf("%016x", hash2(res.SigHash, out.SigHash))
	res.ILHash = fmt.Sprintf("%016x", hash2(res.ILHash, out.ILHash))
	res.TraceHash = fmt.Sprintf("%016x", hash2(res.TraceHash, out.TraceHash))
	for st := range out.States {
		if len(res.States) < 64 {
			res.States = append(res.States, fmt.Sprintf("%x", st))
		}
	}
}

func hash2(prev string, v uint64) uint64 {
	h := uint64(14695981039346656037)
	for i := 0; i < len(prev); i++ {
		h = (h ^ uint64(prev[i])) * 1099511628211
	}
	for i := 0; i < 8; i++ {
		h = (h ^ (v >> (8 * i) & 0xff)) * 1099511628211
	}
	return h
}

var frameRx = regexp.MustCompile(`(?m)^(github\.com/reeflective/readline\S*)\(`)

// panicSig builds the signature of a panic: innermost /repo frame + kind.
func panicSig(msg, stack string) string {
	kind := "other"
	switch {
	case strings.Contains(msg, "index out of range"):
		kind = "index"
	case strings.Contains(msg, "slice bounds out of range"):
		kind = "slice"
	case strings.Contains(msg, "nil pointer"):
		kind = "nil"
	case strings.Contains(msg, "nil map"):
		kind = "nilmap"
	case strings.Contains(msg, "divide by zero"):
		kind = "div0"
	case strings.Contains(msg, "makeslice"):
		kind = "makeslice"
	}
	fn := "?"
	for _, m := range frameRx.FindAllStringSubmatch(stack, -1) {
		f := m[1]
		if strings.Contains(f, "Verif") {
			continue
		}
		fn = strings.TrimPrefix(f, "github.com/reeflective/readline")
		fn = strings.TrimPrefix(fn, "/")
		break
	}
	return "panic:" + kind + ":" + fn
}

func scriptSummary(sc []wire.Token) []string {
	var out []string
	for _, t := range sc {
		q := fmt.Sprintf("%q", string(t.B))
		if t.Cmd != "" {
			q += "=" + t.Cmd
		}
		out = append(out, q)
	}
	return out
}

func sample(sc *wire.Scenario, extra map[string]any) any {
	m := map[string]any{
		"index":  sc.Index,
		"mode":   sc.Env.Mode,
		"term":   fmt.Sprintf("%dx%d@%d", sc.Env.W, sc.Env.H, sc.Env.StartRow),
		"script": scriptSummary(sc.Script),
		"class":  sc.Plan.Class,
		"policy": sc.Plan.Policy,
	}
	if len(sc.Plan.Faults) > 0 {
		m["faults"] = sc.Plan.Faults
	}
	if len(sc.Plan.Disturb) > 0 {
		m["disturb"] = sc.Plan.Disturb
	}
	if len(sc.Env.Inputrc) > 0 {
		m["inputrc"] = sc.Env.Inputrc
	}
	for k, v := range extra {
		m[k] = v
	}
	return m
}

func mustJSON(v any) json.RawMessage {
	b, err := json.Marshal(v)
	if err != nil {
		panic(err)
	}
	return b
}

func sortedKeys[V any](m map[string]V) []string {
	var ks []string
	for k := range m {
		ks = append(ks, k)
	}
	sort.Strings(ks)
	return ks
}

func budget(quick, thorough int) func(string) int {
	return func(tier string) int {
		if tier == "thorough" {
			return thorough
		}
		return quick
	}
}

func jsonInto(raw json.RawMessage, v any) {
	if len(raw) == 0 {
		return
	}
	json.Unmarshal(raw, v)
}

type readlineShell = readline.Shell

func stackBuf() []byte {
	buf := make([]byte, 16384)
	n := runtime.Stack(buf, false)
	return buf[:n]
}

// SampleOf writes a scenario out for the evidence file when its executor did not
// produce a sample of its own for it.
func SampleOf(sc *wire.Scenario, res *wire.Result) any {
	extra := map[string]any{"verdict": res.Verdict, "sessions": res.Sessions, "scheduler_steps": res.Steps}
	if len(sc.X) > 0 && len(sc.X) < 600 {
		extra["parameters"] = sc.X
	}
	if len(sc.Plans) > 0 {
		extra["schedules"] = len(sc.Plans)
	}
	return sample(sc, extra)
}
