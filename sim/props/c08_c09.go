package props

import (
	"fmt"
	"strings"

	"github.com/reeflective/readline"

	"verifsim/sim"
	"verifsim/wire"
)

func dumpSource(h readline.History) (out []string, err error) {
	defer func() {
		if r := recover(); r != nil {
			err = fmt.Errorf("panic: %v", r)
		}
	}()
	n := h.Len()
	for i := 0; i < n; i++ {
		l, e := h.GetLine(i)
		if e != nil {
			l = "<error>"
		}
		out = append(out, l)
	}
	return out, nil
}

// ---------------------------------------------------------------- C08

func init() {
	register(&Family{ID: "C08", Gen: genC08, Exec: execC08, Budget: budget(3000, 300000)})
}

type c08X struct {
	Text    string `json:"text"`
	Exit    string `json:"exit"`             // accept-line | accept-and-hold | multiline | operate-and-get-next | accept-and-infer-next-history | interrupt | eof-key | eof-fault
	Second  string `json:"second,omitempty"` // second Readline: accept | interrupt | ""
	Size    int    `json:"size"`             // history-size: -1 unset
	Records bool   `json:"records"`          // whether the exit is one that records
}

func genC08(g *Gen, tier string, idx int) *wire.Scenario {
	mode := Pick(g, []string{"emacs", "emacs", "vi"})
	sc := &wire.Scenario{Prop: "C08", Family: "history"}
	env := wire.Env{Mode: mode, Prompt: "> ", W: Pick(g, []int{30, 80, 120}), H: 24, NoDefaultHistory: true}
	x := c08X{Size: -1}
	if g.P(45) {
		x.Size = Pick(g, []int{0, 1, 2, 5, 500, 600})
		env.Inputrc = append(env.Inputrc, fmt.Sprintf("set history-size %d", x.Size))
	}
	// the typed line
	switch g.N(8) {
	case 0:
		x.Text = ""
	case 1:
		x.Text = "   "
	case 2:
		x.Text = "  " + g.word(false, 5) + "  "
	default:
		x.Text = g.histLine(false)
		x.Text = strings.ReplaceAll(x.Text, "\n", " ")
	}
	x.Text = strings.Map(func(r rune) rune {
		if r == '\\' {
			return '/'
		}
		return r
	}, x.Text)
	// sources
	ns := g.Range(1, 3)
	kinds := []string{"memory", "file", "stub"}
	for i := 0; i < ns; i++ {
		h := wire.HistSrc{Kind: Pick(g, kinds), Name: fmt.Sprintf("src%d", i)}
		n := Pick(g, []int{0, 1, 2, 3, 5, 8})
		big := i == 0 && idx%16 == 11
		if big {
			// a long-lived history: around the sizes a limit is typically set to
			n = Pick(g, []int{499, 500, 501, 520, 1000})
			h.Kind = Pick(g, []string{"memory", "file"})
		}
		for j := 0; j < n; j++ {
			if big && j < n-8 {
				h.Entries = append(h.Entries, fmt.Sprintf("cmd %d", j))
				continue
			}
			h.Entries = append(h.Entries, strings.ReplaceAll(g.histLine(false), "\n", " "))
		}
		if n > 0 {
			switch g.N(5) {
			case 0:
				h.Entries[n-1] = strings.TrimSpace(x.Text)
			case 1:
				h.Entries[n-1] = " " + strings.TrimSpace(x.Text) + "  "
			}
			if strings.TrimSpace(h.Entries[n-1]) == "" {
				h.Entries[n-1] = "zz"
			}
		}
		if h.Kind == "stub" && g.P(50) {
			h.FailWrite = Pick(g, []int{300, 1000})
		}
		if h.Kind == "file" && !big && g.P(15) {
			h.Unwritable = true // its directory has gone: the source still lists what is accepted, the file cannot
		}
		env.History = append(env.History, h)
	}
	env.Binds = append(env.Binds, g.Cat.Extra...)
	km := "emacs"
	if mode == "vi" {
		km = "vi-insert"
	}
	for _, r := range x.Text {
		sc.Script = append(sc.Script, tok(string(r), "self-insert"))
	}
	// the application may have installed a multi-line acceptance callback (which finds these
	// single lines complete): every accept variant must record the same with it
	if g.P(35) {
		env.Multiline = "backslash"
	}
	x.Exit = Pick(g, []string{"accept-line", "accept-line", "accept-and-hold", "multiline", "operate-and-get-next",
		"accept-and-infer-next-history", "interrupt", "eof-key", "eof-fault"})
	x.Records = false
	switch x.Exit {
	case "accept-line":
		sc.Script = append(sc.Script, tok("\r", "accept-line"))
		x.Records = true
	case "accept-and-hold":
		sc.Script = append(sc.Script, tok(g.Cat.ShortSeqFor(km, "accept-and-hold"), "accept-and-hold"))
		x.Records = true
		x.Second = Pick(g, []string{"accept", "interrupt"})
	case "multiline":
		env.Multiline = "backslash"
		sc.Script = append(sc.Script, tok("\\", "self-insert"), tok("\r", "accept-line"))
		tail := g.word(false, 4)
		for _, r := range tail {
			sc.Script = append(sc.Script, tok(string(r), "self-insert"))
		}
		sc.Script = append(sc.Script, tok("\r", "accept-line"))
		x.Text = x.Text + "\\\n" + tail
		x.Records = true
	case "operate-and-get-next":
		sc.Script = append(sc.Script, tok(g.Cat.ShortSeqFor(km, "operate-and-get-next"), "operate-and-get-next"))
		x.Second = Pick(g, []string{"accept", "interrupt"})
	case "accept-and-infer-next-history":
		sc.Script = append(sc.Script, tok(g.Cat.ShortSeqFor(km, "accept-and-infer-next-history"), "accept-and-infer-next-history"))
		x.Second = Pick(g, []string{"accept", "interrupt"})
	case "interrupt":
		sc.Script = append(sc.Script, tok("\x03", "abort"))
	case "eof-key":
		// end-of-file only ends the call on an empty line
		sc.Script = nil
		x.Text = ""
		sc.Script = append(sc.Script, tok("\x04", "end-of-file"))
	case "eof-fault":
		sc.Plan.Faults = []wire.Fault{{Kind: "eof", ReadKind: "main", Nth: len(sc.Script) + 1}}
	}
	switch x.Second {
	case "accept":
		sc.Script = append(sc.Script, tok("\r", "accept-line"))
	case "interrupt":
		sc.Script = append(sc.Script, tok("\x03", "abort"))
	}
	sc.Env = env
	sc.X = mustJSON(x)
	sc.Plan.Policy, sc.Plan.Class = "canonical", "S0"
	if x.Exit == "eof-fault" {
		sc.Plan.Class = "S3"
	}
	return sc
}

func execC08(x *Ctx, sc *wire.Scenario) *wire.Result {
	res := okResult(sc)
	var xx c08X
	jsonInto(sc.X, &xx)
	type obs struct {
		lists [][]string
		errs  []int
	}
	var snaps []obs
	take := func() {
		var o obs
		for _, src := range x.P.Sources {
			l, _ := dumpSource(src)
			o.lists = append(o.lists, l)
		}
		for _, st := range x.P.Stubs {
			o.errs = append(o.errs, st.WriteErrs)
		}
		snaps = append(snaps, o)
	}
	calls := 1
	if xx.Second != "" {
		calls = 2
	}
	hooks := sim.Hooks{
		Setup: func(s *sim.Session, sh *readline.Shell) { take() },
		Body: func(s *sim.Session, sh *readline.Shell) {
			for i := 0; i < calls; i++ {
				s.Readline(sh)
				take()
			}
		},
		OnEnd: func(s *sim.Session, sh *readline.Shell) {
			if len(snaps) < calls+1 {
				take() // the call never returned (EOF fault): observe what is there now
			}
		},
	}
	out := runSession(x, sc, sc.Plan, hooks, false)
	absorb(res, out)
	res.Nontrivial = len(sc.Env.History) > 0
	if out.End == "PANIC" || out.End == "DEADLOCK" {
		res.Counters["skipped:crash"]++
		return res
	}
	if len(snaps) < 2 {
		res.Counters["skipped:no_observation"]++
		return res
	}
	size := xx.Size
	// expected effect of each Readline return on each source
	stubIdx := map[int]int{}
	si := 0
	for i, h := range sc.Env.History {
		if h.Kind == "stub" {
			stubIdx[i] = si
			si++
		}
	}
	for call := 0; call+1 < len(snaps); call++ {
		before, after := snaps[call], snaps[call+1]
		var ret *sim.Return
		if call < len(out.Returns) {
			ret = &out.Returns[call]
		}
		records := false
		text := ""
		what := ""
		switch {
		case ret == nil:
			what = "no return (input ended)"
		case ret.Err != "":
			what = "return with error " + ret.Err
		case call == 0:
			records = xx.Records
			text = ret.Line
			what = xx.Exit
		default:
			// second call: a plain accept-line of whatever was shown
			records = xx.Second == "accept"
			text = ret.Line
			what = "accept-line after " + xx.Exit
		}
		t := strings.TrimSpace(text)
		for i := range before.lists {
			b, a := before.lists[i], after.lists[i]
			kind := sc.Env.History[i].Kind
			want := b
			expectAdd := false
			if records && t != "" {
				dup := len(b) > 0 && strings.TrimSpace(b[len(b)-1]) == t
				full := size > 0 && len(b) >= size
				expectAdd = !dup && !full
			}
			ctx := fmt.Sprintf("%s of %q: source %d (%s, %d entries before, history-size %d)", what, text, i, kind, len(b), size)
			sizeCls := "size-unset"
			switch {
			case size == 0:
				sizeCls = "size-0"
			case size > 0:
				sizeCls = "size-set"
			}
			if expectAdd {
				if size == 0 && len(a) == len(b) {
					continue // history-size 0: "unlimited" and "keep nothing" are both accepted readings
				}
				if j, ok := stubIdx[i]; ok && after.errs[j] > before.errs[j] && len(a) == len(b) {
					res.Counters["fault:source_write_error"]++
					continue // this source's own Write failed: it may lack the entry
				}
				switch {
				case len(a) == len(b):
					return violation(res, "MISMATCH", "C08.recorded-once", "not-recorded:"+sizeCls+":"+exitCls(what),
						ctx+" gained no entry, expected exactly one")
				case len(a) > len(b)+1:
					return violation(res, "MISMATCH", "C08.recorded-once", "recorded-twice:"+exitCls(what),
						fmt.Sprintf("%s gained %d entries, expected exactly one", ctx, len(a)-len(b)))
				case len(a) < len(b):
					return violation(res, "MISMATCH", "C08.recorded-once", "entries-removed", ctx+" lost entries")
				}
				if strings.TrimSpace(a[len(a)-1]) != t {
					return violation(res, "MISMATCH", "C08.recorded-once", "recorded-wrong-text",
						fmt.Sprintf("%s gained %q, expected the accepted text", ctx, a[len(a)-1]))
				}
				want = append(append([]string(nil), b...), a[len(a)-1])
			}
			if len(a) != len(want) {
				reason := "blank, duplicate of the most recent entry, source full, returned with an error or replay command"
				return violation(res, "MISMATCH", "C08.not-recorded-when-excluded", "recorded-unexpectedly:"+exitCls(what),
					fmt.Sprintf("%s went from %d to %d entries, expected no new entry (%s)", ctx, len(b), len(a), reason))
			}
			for k := range want {
				if a[k] != want[k] {
					return violation(res, "MISMATCH", "C08.earlier-entries-untouched", "earlier-entry-changed", fmt.Sprintf("%s: entry %d changed from %q to %q", ctx, k, want[k], a[k]))
				}
			}
		}
	}
	if sc.Index%300 == 0 {
		res.Sample = sample(sc, map[string]any{"x": xx, "returns": out.Returns})
	}
	return res
}

func exitCls(what string) string {
	what = strings.ReplaceAll(what, " ", "-")
	if i := strings.Index(what, "-with-error"); i >= 0 {
		return "error-return"
	}
	return what
}

// ---------------------------------------------------------------- C09

func init() {
	register(&Family{ID: "C09", Gen: genC09, Exec: execC09, Budget: budget(4000, 500000)})
}

type c09X struct {
	Typed string `json:"typed"`
}

var walkCmds = []string{"previous-history", "next-history", "beginning-of-history", "end-of-history",
	"up-line-or-history", "down-line-or-history"}
var searchCmds = []string{"history-search-backward", "history-search-forward", "history-substring-search-backward",
	"history-substring-search-forward", "beginning-of-buffer-or-history", "end-of-buffer-or-history", "up-line-or-search"}

// genC09Isearch: one incremental search session from the line being typed, with its search text edited
// (characters added and erased, possibly down to nothing), left by Return, by a key that is not a search
// key, or by abort, and the line accepted. Judged on the line Readline returns.
func genC09Isearch(g *Gen, idx int) *wire.Scenario {
	sc := &wire.Scenario{Prop: "C09", Family: "isearch-session"}
	env := wire.Env{Mode: "emacs", Prompt: "> ", W: 80, H: 30, NoDefaultHistory: true}
	pool := []string{"git status", "git commit", "echo one", "make foo", "git", "echo two words", "ls", "make", "cat gitx"}
	var es []string
	for i := 0; i < g.Range(1, 6); i++ {
		es = append(es, Pick(g, pool))
	}
	env.History = []wire.HistSrc{{Kind: Pick(g, []string{"memory", "file"}), Name: "h0", Entries: es}}
	env.Binds = append(env.Binds, g.Cat.Extra...)
	sc.Env = env
	e := Pick(g, es)
	typed := ""
	switch g.N(4) {
	case 0:
	case 1:
		typed = g.word(false, 3)
	default:
		typed = e[:g.Range(1, len(e))] // the beginning of an entry
	}
	typed = strings.TrimSpace(strings.ReplaceAll(typed, "\n", " "))
	for _, r := range typed {
		sc.Script = append(sc.Script, tok(string(r), "typed"))
	}
	sc.Script = append(sc.Script, tok(Pick(g, []string{"\x12", "\x12", "\x13"}), "isearch-start"))
	e = Pick(g, es)
	from := g.N(len(e))
	pat := e[from:]
	if len(pat) > 3 {
		pat = pat[:g.Range(1, 3)]
	}
	if g.P(15) {
		pat = Pick(g, []string{"zq", "x", "tu"})
	}
	for _, r := range pat {
		sc.Script = append(sc.Script, tok(string(r), "isearch-char"))
	}
	if g.P(20) {
		sc.Script = append(sc.Script, tok(Pick(g, []string{"\x12", "\x13"}), "isearch-again"))
	}
	switch g.N(4) {
	case 0: // erased completely
		for range pat {
			sc.Script = append(sc.Script, tok("\x7f", "isearch-erase"))
		}
	case 1:
		for i := 0; i < g.N(len(pat)+1); i++ {
			sc.Script = append(sc.Script, tok("\x7f", "isearch-erase"))
		}
		if g.P(40) {
			sc.Script = append(sc.Script, tok(string(Pick(g, []rune("gmte "))), "isearch-char"))
		}
	case 2:
		if g.P(50) {
			sc.Script = append(sc.Script, tok("\x15", "isearch-erase-all"))
		}
	}
	switch g.N(4) {
	case 0:
		sc.Script = append(sc.Script, tok("\x07", "isearch-abort"))
	case 1:
		sc.Script = append(sc.Script, tok("\x05", "isearch-leave"))
	}
	sc.Script = append(sc.Script, tok("\r", "accept-line"))
	sc.X = mustJSON(c09X{Typed: typed})
	sc.Plan = wire.Plan{Policy: "canonical", Class: "S0"}
	if idx%4 == 1 {
		sc.Plan = wire.Plan{Policy: "seeded", Class: "S1", Seed: g.Seed()}
	}
	return sc
}

// judgeC09Isearch: the returned line is the text that was being typed, or a stored entry that contains the
// search text as it was when the search was left; after an abort, or with no search text left, the former.
func judgeC09Isearch(res *wire.Result, sc *wire.Scenario, out *sim.Outcome, entries []string) *wire.Result {
	typed, pat := "", []rune{}
	started, aborted, left := false, false, false
	for i, t := range sc.Script {
		if started && strings.HasPrefix(t.Cmd, "isearch-") {
			// the model follows a session that is still open: a key that closed it on its own
			// (a second search key does, in some states) makes the rest ordinary editing
			if w := waitAfter(out, i); w == nil || w.Local != "isearch" {
				res.Counters["skipped:isearch_session_closed_early"]++
				return res
			}
		}
		switch t.Cmd {
		case "typed":
			if started {
				return res // a script the minimiser broke
			}
			typed += string(t.B)
		case "isearch-start":
			if started {
				return res
			}
			started = true
		case "isearch-char":
			if !started || aborted || left {
				return res
			}
			pat = append(pat, []rune(string(t.B))...)
		case "isearch-erase":
			if len(pat) > 0 {
				pat = pat[:len(pat)-1]
			}
		case "isearch-erase-all":
			pat = pat[:0]
		case "isearch-abort":
			aborted = true
		case "isearch-leave":
			left = true
		}
	}
	if !started || len(out.Returns) == 0 || out.Returns[0].Err != "" {
		return res
	}
	got := out.Returns[0].Line
	res.Counters["checked:isearch-session"]++
	how := "accepted"
	switch {
	case aborted:
		how = "aborted"
	case left:
		how = "left-by-another-key"
	}
	if got == typed {
		return res
	}
	// (an empty search text matches every entry)
	for _, e := range entries {
		if e == got && strings.Contains(strings.ToLower(e), strings.ToLower(string(pat))) {
			return res
		}
	}
	state := "with-search-text"
	if len(pat) == 0 {
		state = "search-text-empty"
	}
	return violation(res, "MISMATCH", "C09.buffer-is-typed-text-or-stored-entry", "isearch-session:"+how+":"+state,
		fmt.Sprintf("typed %q, incremental search (search text at the end %q, %s): Readline returned %q, which is neither the text being typed nor a stored entry containing the search text; history (oldest first) %q",
			typed, string(pat), how, got, entries))
}

func genC09(g *Gen, tier string, idx int) *wire.Scenario {
	if idx%10 == 9 {
		return genC09Isearch(g, idx)
	}
	mode := Pick(g, []string{"emacs", "emacs", "vi"})
	sc := &wire.Scenario{Prop: "C09", Family: "history"}
	env := wire.Env{Mode: mode, Prompt: "> ", W: Pick(g, []int{40, 80, 120}), H: 30, NoDefaultHistory: true}
	h := wire.HistSrc{Kind: Pick(g, []string{"memory", "file"}), Name: "h0"}
	n := Pick(g, []int{0, 1, 1, 2, 3, 4, 6, 10})
	multi := g.P(15)
	base := g.word(false, 3)
	for i := 0; i < n; i++ {
		var e string
		switch g.N(6) {
		case 0:
			e = base
		case 1:
			e = base + g.word(false, 3)
		case 2:
			if i > 0 {
				e = h.Entries[g.N(i)]
			} else {
				e = g.histLine(false)
			}
		default:
			e = g.histLine(g.P(15))
		}
		if !multi {
			e = strings.ReplaceAll(e, "\n", " ")
		}
		if strings.TrimSpace(e) == "" {
			e = "x"
		}
		h.Entries = append(h.Entries, strings.TrimSpace(e))
	}
	env.History = []wire.HistSrc{h}
	if g.P(15) {
		// a faulty source whose GetLine fails: only (c),(d) are judged
		env.History[0].Kind = "stub"
		env.History[0].FailGet = 300
	}
	env.Binds = append(env.Binds, g.Cat.Extra...)
	sc.Env = env
	km := "emacs"
	if mode == "vi" {
		km = "vi-insert"
	}
	var x c09X
	switch g.N(4) {
	case 0:
	case 1:
		x.Typed = base[:g.Range(1, len(base))]
	default:
		x.Typed = g.word(false, 5)
	}
	if len(x.Typed) > 1 && g.P(25) {
		// characters that mean something in a regular expression (the substring searches compile one)
		rt := []rune(x.Typed)
		rt[g.N(len(rt))] = Pick(g, []rune(".*+?()[\\^$|"))
		x.Typed = string(rt)
	}
	// entries that share only the beginning of what is typed: the ones a search with a shortened
	// search text would wrongly find
	if rt := []rune(x.Typed); len(rt) > 1 && g.P(50) {
		es := env.History[0].Entries
		for i := 0; i < g.Range(1, 2); i++ {
			e := string(rt[:g.Range(1, len(rt)-1)]) + "Z" + g.word(false, 2)
			e = strings.TrimSpace(strings.ReplaceAll(e, "\n", " "))
			at := g.N(len(es) + 1)
			es = append(es[:at], append([]string{e}, es[at:]...)...)
		}
		env.History[0].Entries = es
		sc.Env = env
	}
	abandoned := n >= 1 && g.P(14)
	var abandonedScript []wire.Token
	if abandoned {
		// an entry walked to, edited and left without being accepted, then a search from the line being typed
		// with a text that matches the entry as it is stored: the search shows what is stored, not the abandoned edit
		env.History[0].Kind = "memory"
		env.History[0].FailGet = 0
		sc.Env = env
		es := env.History[0].Entries
		j := g.N(len(es))
		target := []rune(es[len(es)-1-j])
		x.Typed = string(target[:g.Range(1, min(2, len(target)))])
		for _, r := range x.Typed {
			if r > 0x7e || r <= ' ' {
				x.Typed = "" // (not a text the keyboard of these sessions can type)
			}
		}
		up, down := g.Cat.ShortSeqFor(km, "previous-history"), g.Cat.ShortSeqFor(km, "next-history")
		for i := 0; i <= j; i++ {
			abandonedScript = append(abandonedScript, tok(up, "previous-history"))
		}
		if g.P(50) {
			abandonedScript = append(abandonedScript, tok(g.Cat.ShortSeqFor(km, "kill-whole-line"), "entry-edit"))
		} else {
			for i := 0; i < g.Range(1, 3); i++ {
				abandonedScript = append(abandonedScript, tok(g.Cat.ShortSeqFor(km, "backward-delete-char"), "entry-edit"))
			}
		}
		for i := 0; i < g.Range(0, 3); i++ {
			abandonedScript = append(abandonedScript, tok(string(Pick(g, []rune("rmq -"))), "entry-edit"))
		}
		if g.P(70) {
			for i := 0; i <= j; i++ {
				abandonedScript = append(abandonedScript, tok(down, "next-history"))
			}
		}
		for i := 0; i < g.Range(1, 3); i++ {
			cmd := Pick(g, []string{"history-search-backward", "history-substring-search-backward", "history-search-backward", "history-search-forward"})
			if seq := g.Cat.ShortSeqFor(km, cmd); seq != "" {
				abandonedScript = append(abandonedScript, tok(seq, cmd))
			}
		}
	}
	for _, r := range x.Typed {
		sc.Script = append(sc.Script, tok(string(r), "typed"))
	}
	sc.Script = append(sc.Script, abandonedScript...)
	// the point is not always at the end of what was typed: an edit in the middle (which saves a
	// state of the line with the point there) and motions afterwards (which do not)
	if len(x.Typed) > 1 && g.P(35) && !abandoned {
		back := g.Range(1, len([]rune(x.Typed))-1)
		for i := 0; i < back; i++ {
			sc.Script = append(sc.Script, tok(g.Cat.ShortSeqFor(km, "backward-char"), "point-move"))
		}
		if g.P(60) {
			// insert a character and delete it again: same text, a saved state with the point here
			sc.Script = append(sc.Script, tok("q", "point-edit"), tok(g.Cat.ShortSeqFor(km, "backward-delete-char"), "point-edit"))
		}
		for i := 0; i < g.N(back+2); i++ {
			sc.Script = append(sc.Script, tok(g.Cat.ShortSeqFor(km, Pick(g, []string{"forward-char", "forward-char", "end-of-line", "backward-char"})), "point-move"))
		}
		// and a search straight from there, with the point (mostly) inside the text
		if g.P(70) {
			cmd := Pick(g, []string{"history-search-backward", "history-substring-search-backward", "history-substring-search-backward", "history-search-forward", "history-substring-search-forward"})
			if seq := g.Cat.ShortSeqFor(km, cmd); seq != "" {
				sc.Script = append(sc.Script, tok(seq, cmd))
				if g.P(50) {
					sc.Script = append(sc.Script, tok(seq, cmd)) // again: the search keeps the point where it was
				}
			}
		}
	}
	steps := g.Range(1, 12)
	if g.P(15) {
		steps = g.Range(13, 25)
	}
	searchy := g.P(45)
	for i := 0; i < steps; i++ {
		var cmd string
		switch {
		case searchy && g.P(35):
			cmd = Pick(g, searchCmds)
		case searchy && g.P(12):
			// an incremental search session
			seq := g.Cat.ShortSeqFor(km, Pick(g, []string{"reverse-search-history", "forward-search-history"}))
			if seq != "" {
				sc.Script = append(sc.Script, tok(seq, "isearch-start"))
				for j := 0; j < g.Range(0, 3); j++ {
					sc.Script = append(sc.Script, tok(string(Pick(g, []rune(base+"abcxyz 01"))), "isearch-char"))
				}
				for j := 0; j < g.N(3); j++ {
					sc.Script = append(sc.Script, tok(Pick(g, []string{"\x12", "\x13", "\x1b[A", "\x1b[B"}), "isearch-move"))
				}
				sc.Script = append(sc.Script, tok("\x07", "isearch-exit"))
			}
			continue
		default:
			cmd = Pick(g, walkCmds)
			if multi && (cmd == "up-line-or-history" || cmd == "down-line-or-history") {
				cmd = "previous-history"
			}
		}
		seq := g.Cat.ShortSeqFor(km, cmd)
		if seq == "" {
			continue
		}
		sc.Script = append(sc.Script, tok(seq, cmd))
	}
	sc.Script = append(sc.Script, tok("\x03", "abort"))
	sc.X = mustJSON(x)
	sc.Plan = wire.Plan{Policy: "canonical", Class: "S0"}
	if idx%4 == 3 {
		sc.Plan = wire.Plan{Policy: "seeded", Class: "S1", Seed: g.Seed()}
	}
	return sc
}

func execC09(x *Ctx, sc *wire.Scenario) *wire.Result {
	res := okResult(sc)
	// the text being typed is the leading run of typed tokens (so that a minimised script,
	// from which tokens were dropped, still says what was typed)
	var xx c09X
	for _, t := range sc.Script {
		if t.Cmd != "typed" {
			break
		}
		xx.Typed += string(t.B)
	}
	entries := sc.Env.History[0].Entries
	faulty := sc.Env.History[0].FailGet > 0
	var beforeList, afterList []string
	hooks := sim.Hooks{
		Setup: func(s *sim.Session, sh *readline.Shell) { beforeList, _ = dumpSourceQuiet(x.P) },
		OnEnd: func(s *sim.Session, sh *readline.Shell) { afterList, _ = dumpSourceQuiet(x.P) },
	}
	out := runSession(x, sc, sc.Plan, hooks, false)
	absorb(res, out)
	res.Nontrivial = len(entries) > 0 && len(out.Waits) > 2
	// (d) none of these commands fails
	if crashOracle(res, out, "C09") {
		return res
	}
	n := len(entries)
	isEntry := func(s string) bool {
		for _, e := range entries {
			if e == s {
				return true
			}
		}
		return false
	}
	// (c) non-destructive
	if !faulty && sc.Family != "isearch-session" && strings.Join(beforeList, "\x00") != strings.Join(afterList, "\x00") {
		return violation(res, "MISMATCH", "C09.non-destructive", "source-modified",
			fmt.Sprintf("history source changed during navigation: before %q after %q", beforeList, afterList))
	}
	if faulty {
		for _, st := range x.P.Stubs {
			res.Counters["fault:source_getline_error"] += st.GetErrs
		}
		return res
	}
	// the stored entries as the source itself reports them (the file source drops
	// consecutive duplicates when it is filled)
	entries = beforeList
	n = len(entries)
	if sc.Family == "isearch-session" {
		return judgeC09Isearch(res, sc, out, entries)
	}
	typedN := len([]rune(xx.Typed))
	pos := -1 // -1 = in-progress line, 0 = newest ... n-1 = oldest
	exact := true
	inProgress := xx.Typed
	variants := map[string]bool{xx.Typed: true} // legitimate in-progress texts
	var lastInProg *sim.Snap
	var inProgSnaps []*sim.Snap
	edited := map[int]string{}      // entries (by distance from the newest) edited while shown, and what they show now
	entryEdits := map[string]bool{} // every text such an edit left
	isNav := func(cmd string) (walk, search bool) {
		for _, w := range walkCmds {
			if w == cmd {
				return true, false
			}
		}
		for _, w := range searchCmds {
			if w == cmd {
				return false, true
			}
		}
		return false, false
	}
	// Shell.Line() still shows the search minibuffer at the wait that follows the end of an
	// incremental search (the screen shows the real line): that snapshot says nothing about the line
	stale := false
	// commands run inside an incremental search act on its minibuffer, and what they leave as the line being
	// typed cannot be observed: after such a session only membership (typed text or stored entry) is judged
	hadIsearch := false
	for i := typedN; i < len(sc.Script); i++ {
		t := sc.Script[i]
		before := waitAfter(out, i)
		after := waitAfter(out, i+1)
		walk, search := isNav(t.Cmd)
		staleBefore := stale
		if (before != nil && before.Local == "isearch") || (after != nil && after.Local == "isearch") {
			hadIsearch = true
		}
		stale = before != nil && after != nil && before.Local == "isearch" && after.Local != "isearch"
		if len(out.Returns) > 0 && after == nil {
			if walk || search {
				return violation(res, "MISMATCH", "C09.navigation-does-not-return", "returned:"+t.Cmd,
					fmt.Sprintf("Readline returned %+v because of %s", out.Returns[0], t.Cmd))
			}
			break
		}
		if before == nil || after == nil {
			exact = false
			continue
		}
		if exact && pos == -1 {
			lastInProg = before
		}
		if variants[before.Line] && !staleBefore {
			// every (text, point) in which the line being typed was seen: the prefix searches take
			// their search text from that line, as it was when it was left
			if isEntry(before.Line) && !(exact && pos == -1) {
				// this may as well be a stored entry with the same text: the earlier state stays a candidate
				inProgSnaps = append(inProgSnaps, before)
			} else {
				inProgSnaps = []*sim.Snap{before} // the most recent one: that is the state the line was left in
			}
		}
		if (t.Cmd == "point-move" || t.Cmd == "point-edit") && exact && pos == -1 && after.Local == "" {
			// still on the line being typed: its text and point as they are now
			inProgress = after.Line
			variants[after.Line] = true
			continue
		}
		if t.Cmd == "entry-edit" && exact && pos >= 0 && after.Local == "" && before.Local == "" {
			// an edit of a stored entry that is being shown: the line keeps it while the call lasts (walking
			// back re-shows it), the source does not, and no search may produce it
			edited[pos] = after.Line
			entryEdits[after.Line] = true
			continue
		}
		if !walk && !search {
			// incremental search keys and exits: the model position is unknown afterwards;
			// whatever a non-navigation key leaves in the buffer is an edit of the user
			exact = false
			if after.Local != "isearch" {
				variants[after.Line] = true
			}
			continue
		}
		if before.Local == "isearch" || after.Local == "isearch" {
			exact = false
			continue
		}
		if walk && exact {
			if n > 0 {
				switch t.Cmd {
				case "previous-history", "up-line-or-history":
					if pos < n-1 {
						pos++
					}
				case "next-history", "down-line-or-history":
					if pos > -1 {
						pos--
					}
				case "beginning-of-history":
					pos = n - 1
				case "end-of-history":
					pos = -1
				}
			}
			want := inProgress
			if pos >= 0 {
				want = entries[n-1-pos]
				if e, ok := edited[pos]; ok {
					want = e
				}
			}
			res.Counters["checked:walk"]++
			if after.Line != want {
				where := "the in-progress text"
				if pos >= 0 {
					where = fmt.Sprintf("entry %d from newest", pos)
				}
				return violation(res, "MISMATCH", "C09.walk-faithful", "walk:"+t.Cmd,
					fmt.Sprintf("after %s the buffer is %q, expected %s %q (history, oldest first: %q; typed %q)", t.Cmd, after.Line, where, want, entries, inProgress))
			}
			continue
		}
		// search commands (or walks after the position became unknown)
		exact = false
		res.Counters["checked:search"]++
		if after.Line == before.Line {
			continue
		}
		if search && strings.Contains(t.Cmd, "search") && !hadIsearch && !staleBefore && entryEdits[after.Line] && !isEntry(after.Line) && !variants[after.Line] {
			return violation(res, "MISMATCH", "C09.search-matches", "search-shows-an-abandoned-edit:"+t.Cmd,
				fmt.Sprintf("%s put %q in the buffer: that is what an entry was edited into earlier in this call and then left, never accepted; the stored entries are %q", t.Cmd, after.Line, entries))
		}
		if variants[after.Line] || ((walk || !strings.Contains(t.Cmd, "search")) && entryEdits[after.Line]) {
			continue // (a walk re-shows an entry as it was edited while this call lasts)
		}
		if staleBefore {
			res.Counters["skipped:search_after_isearch_exit"]++
			continue
		}
		if !isEntry(after.Line) {
			sig := "foreign-buffer:" + t.Cmd
			if hadIsearch {
				sig = "foreign-buffer:after-isearch-session"
			}
			return violation(res, "MISMATCH", "C09.buffer-is-typed-text-or-stored-entry", sig,
				fmt.Sprintf("after %s the buffer is %q, which is neither the text being typed %q nor a stored entry %q", t.Cmd, after.Line, inProgress, entries))
		}
		if hadIsearch {
			res.Counters["skipped:search_match_after_isearch_session"]++
			continue
		}
		// the search text: what is left of the cursor, in the line shown or in the line being typed
		var lefts []string
		cands := append([]*sim.Snap{before}, inProgSnaps...)
		if len(inProgSnaps) == 0 {
			cands = append(cands, lastInProg)
		}
		for _, w := range cands {
			if w == nil {
				continue
			}
			rs := []rune(w.Line)
			cp := w.Pos
			if cp > len(rs) {
				cp = len(rs)
			}
			lefts = append(lefts, string(rs[:cp])) // (an entry that starts with the whole line starts with this too)
		}
		lefts = dedupe(lefts)
		okPrefix, okSub := false, false
		for _, l := range lefts {
			if strings.HasPrefix(after.Line, l) {
				okPrefix = true
			}
			if strings.Contains(after.Line, l) {
				okSub = true
			}
		}
		switch t.Cmd {
		case "history-search-backward", "history-search-forward":
			if !okPrefix {
				return violation(res, "MISMATCH", "C09.search-matches", "prefix-search-mismatch:"+t.Cmd,
					fmt.Sprintf("%s put %q in the buffer, which starts with none of the candidate search texts %q", t.Cmd, after.Line, lefts))
			}
		case "history-substring-search-backward", "history-substring-search-forward":
			if !okSub {
				return violation(res, "MISMATCH", "C09.search-matches", "substring-search-mismatch:"+t.Cmd,
					fmt.Sprintf("%s put %q in the buffer, which contains none of the candidate search texts %q", t.Cmd, after.Line, lefts))
			}
		}
	}
	if sc.Index%400 == 0 {
		res.Sample = sample(sc, map[string]any{"history": entries, "typed": xx.Typed})
	}
	return res
}

func dumpSourceQuiet(p *sim.Proc) ([]string, error) {
	if len(p.Sources) == 0 {
		return nil, nil
	}
	if st, ok := p.Sources[0].(*sim.StubSource); ok {
		return append([]string(nil), st.Items...), nil
	}
	return dumpSource(p.Sources[0])
}

func findReturn(out *sim.Outcome) (sim.Return, bool) {
	if len(out.Returns) == 0 {
		return sim.Return{}, false
	}
	return out.Returns[0], true
}

func dedupe(xs []string) []string {
	seen := map[string]bool{}
	var out []string
	for _, x := range xs {
		if !seen[x] {
			seen[x] = true
			out = append(out, x)
		}
	}
	return out
}
