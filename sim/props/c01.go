package props

import (
	"fmt"
	"sort"
	"strings"

	"verifsim/sim"
	"verifsim/wire"
)

// runSession executes one session of a scenario under the given plan.
func runSession(x *Ctx, sc *wire.Scenario, plan wire.Plan, hooks sim.Hooks, screen bool) *sim.Outcome {
	spec := &sim.Spec{
		Env:        sc.Env,
		Script:     sc.Script,
		Plan:       plan,
		StepBudget: sc.Steps,
		Hooks:      hooks,
		WantScreen: screen,
		WantEvents: x.Trace,
		WantRaw:    x.Trace,
	}
	out := sim.Run(x.T, x.P, spec)
	if x.Trace {
		x.Traces = append(x.Traces, traceOf(out))
	}
	return out
}

func traceOf(out *sim.Outcome) any {
	var waits []string
	prev := 0
	for _, w := range out.Waits {
		if w.OutOff <= len(out.RawOut) && prev <= w.OutOff {
			waits = append(waits, fmt.Sprintf("    out: %q", out.RawOut[prev:w.OutOff]))
			prev = w.OutOff
		}
		if w.Screen != nil {
			waits = append(waits, fmt.Sprintf("    screen: %q cursor=(%d,%d) wrap=%v report=(%d,%d)", w.Screen.Dump(), w.Screen.Row, w.Screen.Col, w.Screen.Wrap, w.ReportRow, w.ReportCol))
		}
		waits = append(waits, fmt.Sprintf("step=%d tokens=%d+%d kind=%s line=%q pos=%d mark=%d sel=%v[%d,%d) km=%s/%s kill=%q", w.Step, w.Tokens, w.Partial, w.Kind, w.Line, w.Pos, w.Mark, w.SelActive, w.SelB, w.SelE, w.Main, w.Local, w.Kill))
	}
	m := map[string]any{"end": out.End + " " + out.EndDetail, "returns": out.Returns, "waits": waits, "events": out.Events, "blocked": out.Blocked}
	if out.Final != nil {
		m["screen"] = out.Final.Dump()
		m["cursor"] = []int{out.Final.Row, out.Final.Col}
	}
	return m
}

// crashOracle is the part of C01 shared by other properties: no panic,
// no deadlock, no livelock. Returns true when a violation was recorded.
func crashOracle(res *wire.Result, out *sim.Outcome, prop string) bool {
	switch out.End {
	case "PANIC":
		violation(res, "PANIC", prop+".no-panic", panicSig(out.Panic, out.PanicStack),
			fmt.Sprintf("panic in task %s: %s\n%s", out.PanicTask, out.Panic, trimStack(out.PanicStack)))
		return true
	case "DEADLOCK":
		violation(res, "DEADLOCK", prop+".no-deadlock", "deadlock:"+deadlockSig(out.Blocked),
			"no event enabled, Readline has not returned and is not parked in a terminal read: "+out.Blocked)
		return true
	case "LIVELOCK":
		violation(res, "LIVELOCK", prop+".no-livelock", "livelock:"+deadlockSig(out.EndDetail),
			"no input progress for more than 1500 scheduler steps: "+out.EndDetail)
		return true
	case "LIVELOCK_EOF":
		violation(res, "LIVELOCK", prop+".bounded-return-after-eof", "livelock:eof-polling",
			fmt.Sprintf("terminal input ended (EOF/EIO) but Readline kept polling it: %d reads after end of input without returning", out.EOFReads))
		return true
	}
	if v, ok := out.Extra["snapshot_panic"]; ok {
		violation(res, "PANIC", prop+".no-panic", "panic:snapshot", fmt.Sprint("public accessor panicked at an input wait: ", v))
		return true
	}
	return false
}

func retString(rs []sim.Return) string {
	var sb strings.Builder
	for _, r := range rs {
		fmt.Fprintf(&sb, "(%q,%q)", r.Line, r.Err)
	}
	return sb.String()
}

func trimStack(s string) string {
	lines := strings.Split(s, "\n")
	var keep []string
	for _, l := range lines {
		if strings.Contains(l, "reeflective/readline") || strings.HasPrefix(l, "panic") {
			keep = append(keep, strings.TrimSpace(l))
		}
		if len(keep) > 14 {
			break
		}
	}
	return strings.Join(keep, "\n")
}

// deadlockSig abstracts a blocked-task description: labels lose their
// ordinal, so resize-1/resize-2 do not produce distinct signatures.
func deadlockSig(desc string) string {
	parts := strings.Fields(desc)
	seen := map[string]bool{}
	var out []string
	for _, p := range parts {
		for _, pre := range []string{"resize-", "app-"} {
			if i := strings.Index(p, pre); i == 0 {
				j := strings.Index(p, ":")
				if j > 0 {
					p = strings.TrimSuffix(pre, "-") + p[j:]
				}
			}
		}
		if !seen[p] {
			seen[p] = true
			out = append(out, p)
		}
	}
	sort.Strings(out)
	return strings.Join(out, ",")
}

func init() {
	register(&Family{ID: "C01", Gen: genC01, Exec: execC01, Budget: budget(6000, 600000)})
}

func (g *Gen) faultPlan(nTokens int, full bool) []wire.Fault {
	var fs []wire.Fault
	n := 1
	if g.P(25) {
		n = 2
	}
	for i := 0; i < n; i++ {
		var f wire.Fault
		k := g.N(100)
		switch {
		case k < 22:
			f = wire.Fault{Kind: "eof", ReadKind: Pick(g, []string{"main", "main", "arg", "cursor"})}
		case k < 38:
			f = wire.Fault{Kind: "eio", ReadKind: Pick(g, []string{"main", "main", "arg", "cursor"})}
		case k < 50:
			f = wire.Fault{Kind: "data_eof", ReadKind: Pick(g, []string{"main", "arg"})}
		case k < 65:
			f = wire.Fault{Kind: "eintr", ReadKind: Pick(g, []string{"main", "arg", "cursor"})}
		case k < 80:
			f = wire.Fault{Kind: "unsolicited", ReadKind: Pick(g, []string{"main", "main", "arg"}), Arg: g.N(100)}
		case k < 90:
			f = wire.Fault{Kind: "report_cut", ReadKind: "cursor", Arg: g.N(100)}
		default:
			f = wire.Fault{Kind: "report_withhold", ReadKind: "cursor"}
		}
		switch f.ReadKind {
		case "arg":
			f.Nth = g.Range(1, 3)
		default:
			f.Nth = g.Range(1, nTokens+2)
		}
		fs = append(fs, f)
	}
	return fs
}

// genC01ViStructured reaches the deep vi paths on purpose: a bracket- and quote-rich buffer, then
// operators combined with text objects, surround selections (with their argument keys and
// replacement keys) and character searches, from varied cursor positions.
func genC01ViStructured(g *Gen) *wire.Scenario {
	sc := &wire.Scenario{Prop: "C01", Family: "edit-vi-structured", Env: g.swarmEnv("vi")}
	pool := []rune("()[]{}<>\"'` ab")
	for i := 0; i < g.Range(0, 10); i++ {
		sc.Script = append(sc.Script, tok(string(Pick(g, pool)), "self-insert"))
	}
	sc.Script = append(sc.Script, tok("\x1b", "vi-movement-mode"))
	ops := []string{"c", "d", "y", "gU", "gu", "g~", "v"}
	objs := []string{"iw", "aw", "iW", "aW", "ia", "aa", "w", "b", "e", "$", "0", "%", "h", "l"}
	brk := []rune("()[]{}<>\"'`")
	for r := 0; r < g.Range(1, 4); r++ {
		for i := 0; i < g.N(3); i++ {
			sc.Script = append(sc.Script, tok(Pick(g, []string{"h", "l", "0", "$", "w", "b", "^"}), "vi-move"))
		}
		if g.P(25) {
			sc.Script = append(sc.Script, tok(string(rune('1'+g.N(4))), "vi-arg-digit"))
		}
		op := Pick(g, ops)
		for _, c := range op {
			sc.Script = append(sc.Script, tok(string(c), "vi-operator"))
		}
		switch g.N(6) {
		case 0, 1:
			sc.Script = append(sc.Script, tok("s", "vi-select-surround"), tok(string(Pick(g, brk)), "arg-key"))
			if op == "c" || g.P(30) {
				sc.Script = append(sc.Script, tok(string(Pick(g, append(brk, 'x', '\x1b'))), "arg-key"))
			}
		case 2:
			sc.Script = append(sc.Script, tok(Pick(g, []string{"i", "a"}), "vi-select-inside"), tok(string(Pick(g, brk)), "arg-key"))
		case 3:
			sc.Script = append(sc.Script, tok(Pick(g, []string{"f", "F", "t", "T"}), "vi-find"), tok(string(Pick(g, pool)), "arg-key"))
		default:
			for _, c := range Pick(g, objs) {
				sc.Script = append(sc.Script, tok(string(c), "vi-motion"))
			}
		}
		if op == "v" {
			sc.Script = append(sc.Script, tok(Pick(g, []string{"d", "y", "c", "S", "\x1b", "u", "U"}), "vi-visual-op"))
			if g.P(50) {
				sc.Script = append(sc.Script, tok(string(Pick(g, brk)), "arg-key"))
			}
		}
		if g.P(40) {
			sc.Script = append(sc.Script, tok("\x1b", "vi-movement-mode"))
		}
	}
	if g.P(50) {
		sc.Script = append(sc.Script, tok("\r", "accept-line"))
	}
	sc.Plan = wire.Plan{Policy: "seeded", Class: Pick(g, []string{"S0", "S1", "S2"}), Seed: g.Seed()}
	if sc.Plan.Class == "S0" {
		sc.Plan.Policy = "canonical"
	}
	return sc
}

// genC01MultiPrompt: several Readline calls on one shell, each ended by another way of accepting or
// leaving the line (the state a call leaves behind is input to the next one).
func genC01MultiPrompt(g *Gen) *wire.Scenario {
	mode := Pick(g, []string{"emacs", "emacs", "vi"})
	sc := &wire.Scenario{Prop: "C01", Family: "edit-multi-prompt", Env: g.swarmEnv(mode)}
	if len(sc.Env.History) == 0 {
		sc.Env.History = []wire.HistSrc{{Kind: "memory", Name: "h0", Entries: []string{"one", "two words", "three"}}}
	}
	if g.P(40) {
		sc.Env.Inputrc = append(sc.Env.Inputrc, "set revert-all-at-newline on")
	}
	km := "emacs"
	if mode == "vi" {
		km = "vi-insert"
	}
	walks := []string{"previous-history", "previous-history", "next-history", "beginning-of-history", "end-of-history", "history-search-backward"}
	ends := []string{"accept-line", "operate-and-get-next", "accept-and-hold", "accept-and-infer-next-history", "abort-key", "accept-line"}
	for p := 0; p < g.Range(2, 4); p++ {
		for i := 0; i < g.N(4); i++ {
			sc.Script = append(sc.Script, tok(string(Pick(g, []rune("abc d"))), "self-insert"))
		}
		for i := 0; i < g.N(4); i++ {
			cmd := Pick(g, walks)
			if seq := g.Cat.ShortSeqFor(km, cmd); seq != "" {
				sc.Script = append(sc.Script, tok(seq, cmd))
			}
		}
		if g.P(40) {
			sc.Script = append(sc.Script, g.EditScript(ScriptOpts{Mode: mode, N: g.Range(1, 4), NoAccept: true})...)
		}
		end := Pick(g, ends)
		switch end {
		case "abort-key":
			sc.Script = append(sc.Script, tok("\x03", "prompt-end"))
		case "accept-line":
			sc.Script = append(sc.Script, tok("\r", "prompt-end"))
		default:
			if seq := g.Cat.ShortSeqFor(km, end); seq != "" {
				sc.Script = append(sc.Script, tok(seq, "prompt-end"))
			} else {
				sc.Script = append(sc.Script, tok("\r", "prompt-end"))
			}
		}
	}
	// what the next prompt starts with
	for i := 0; i < g.N(4); i++ {
		cmd := Pick(g, append(walks, "undo", "next-history", "down-line-or-history"))
		if seq := g.Cat.ShortSeqFor(km, cmd); seq != "" {
			sc.Script = append(sc.Script, tok(seq, cmd))
		}
	}
	sc.Plan = wire.Plan{Policy: "seeded", Class: Pick(g, []string{"S0", "S1"}), Seed: g.Seed()}
	if sc.Plan.Class == "S0" {
		sc.Plan.Policy = "canonical"
	}
	return sc
}

// genC01Autosuggest: history autosuggestions switched on, the text typed is the beginning of a stored line
// (so that a suggestion is displayed), and the commands that act on a suggestion at the end of the line:
// word and character motions (they accept the suggestion piece by piece), the autosuggest commands, edits.
func genC01Autosuggest(g *Gen) *wire.Scenario {
	mode := Pick(g, []string{"emacs", "vi", "vi"})
	sc := &wire.Scenario{Prop: "C01", Family: "edit-autosuggest", Env: g.swarmEnv(mode)}
	entries := []string{"git push", "git push origin main", "echo héllo wörld", "ls", "日本語 テキスト", "make -j4 all", "a"}
	if g.P(50) {
		entries = append(entries, g.histLine(false))
	}
	sc.Env.History = []wire.HistSrc{{Kind: "memory", Name: "h0", Entries: entries}}
	sc.Env.NoDefaultHistory = true
	var rc []string
	for _, l := range sc.Env.Inputrc {
		if !strings.Contains(l, "history-autosuggest") {
			rc = append(rc, l)
		}
	}
	sc.Env.Inputrc = append(rc, "set history-autosuggest on")
	e := []rune(Pick(g, entries))
	cut := g.Range(0, len(e))
	if g.P(50) && len(e) > 1 {
		cut = g.Range(len(e)-3, len(e)-1) // inside the last word
		if cut < 0 {
			cut = 0
		}
	}
	if g.P(40) {
		// recalled and shortened rather than typed
		km := map[string]string{"emacs": "emacs", "vi": "vi-insert"}[mode]
		if seq := g.Cat.ShortSeqFor(km, "previous-history"); seq != "" {
			for i := 0; i < g.Range(1, 3); i++ {
				sc.Script = append(sc.Script, tok(seq, "previous-history"))
			}
			for i := 0; i < g.Range(1, 3); i++ {
				sc.Script = append(sc.Script, tok("\x7f", "backward-delete-char"))
			}
		}
	} else {
		for _, r := range e[:cut] {
			sc.Script = append(sc.Script, tok(string(r), "self-insert"))
		}
	}
	km := "emacs"
	pool := []string{"forward-word", "forward-char", "end-of-line", "autosuggest-accept", "autosuggest-execute", "autosuggest-toggle",
		"backward-char", "backward-delete-char", "forward-word", "kill-line", "shell-forward-word", "emacs-forward-word"}
	if mode == "vi" {
		if g.P(70) {
			sc.Script = append(sc.Script, tok("\x1b", "vi-movement-mode"))
			km = "vi-command"
			pool = []string{"vi-forward-word", "vi-forward-word", "vi-forward-bigword", "vi-forward-blank-word", "vi-end-word", "vi-forward-char", "vi-end-of-line",
				"vi-append-eol", "vi-add-next", "vi-forward-word-end", "vi-end-bigword", "vi-backward-char", "vi-delete-char", "vi-movement-mode", "forward-word", "end-of-line"}
		} else {
			km = "vi-insert"
		}
	}
	for i := 0; i < g.Range(1, 6); i++ {
		cmd := Pick(g, pool)
		seq := g.Cat.ShortSeqFor(km, cmd)
		if seq == "" {
			continue
		}
		if g.P(15) && km != "vi-insert" {
			d := fmt.Sprint(g.Range(2, 4))
			if km == "emacs" {
				d = "\x1b" + d
			}
			sc.Script = append(sc.Script, tok(d, "digit-argument"))
		}
		sc.Script = append(sc.Script, tok(seq, cmd))
		if cmd == "vi-append-eol" || cmd == "vi-add-next" {
			sc.Script = append(sc.Script, tok("\x1b", "vi-movement-mode"))
		}
	}
	if g.P(50) {
		sc.Script = append(sc.Script, tok("\r", "accept-line"))
	}
	sc.Plan = wire.Plan{Policy: "seeded", Class: Pick(g, []string{"S1", "S2"}), Seed: g.Seed()}
	return sc
}

// genC01Keyword: text with the things the keyword and number commands look for (a URL, numbers, booleans,
// operators) and those commands mixed with the ones that reset or use a selection.
func genC01Keyword(g *Gen) *wire.Scenario {
	mode := Pick(g, []string{"emacs", "emacs", "vi"})
	sc := &wire.Scenario{Prop: "C01", Family: "edit-keyword", Env: g.swarmEnv(mode)}
	texts := []string{"see http://example.com/path?x=1 now", "curl -s https://www.example.org/a/b.c?q=1&r=2", "x=10 y=-3 true && false", "0x1f + 0b101 - 077", "http://a.io", "a https://example.com"}
	text := Pick(g, texts)
	for _, r := range text {
		sc.Script = append(sc.Script, tok(string(r), "self-insert"))
	}
	km := "emacs"
	if mode == "vi" {
		km = "vi-insert"
		if g.P(60) {
			sc.Script = append(sc.Script, tok("\x1b", "vi-movement-mode"))
			km = "vi-command"
		}
	}
	back := map[string]string{"emacs": "backward-char", "vi-insert": "backward-char", "vi-command": "vi-backward-char"}[km]
	for i := 0; i < g.N(len(text)); i++ {
		if seq := g.Cat.ShortSeqFor(km, back); seq != "" {
			sc.Script = append(sc.Script, tok(seq, back))
		}
	}
	pool := []string{"select-keyword-next", "select-keyword-next", "select-keyword-prev", "select-keyword-prev", "keyword-increase", "keyword-decrease",
		"copy-region-as-kill", "copy-backward-word", "copy-forward-word", "kill-region", "exchange-point-and-mark", "forward-word", "backward-word",
		"forward-char", "backward-char", "set-mark", "undo", "yank", "vi-movement-mode", "vi-visual-mode", "beginning-of-line", "end-of-line"}
	for i := 0; i < g.Range(2, 12); i++ {
		cmd := Pick(g, pool)
		seq := g.Cat.ShortSeqFor(km, cmd)
		if seq == "" {
			continue
		}
		if g.P(15) && km != "vi-insert" {
			d := fmt.Sprint(g.Range(2, 12))
			if km == "emacs" {
				d = "\x1b" + strings.Join(strings.Split(d, ""), "\x1b")
			}
			sc.Script = append(sc.Script, tok(d, "digit-argument"))
		}
		sc.Script = append(sc.Script, tok(seq, cmd))
	}
	if g.P(50) {
		sc.Script = append(sc.Script, tok("\r", "prompt-end"))
		// and again at the next prompt: what these commands remember outlives the call
		for _, r := range Pick(g, texts) {
			sc.Script = append(sc.Script, tok(string(r), "self-insert"))
		}
		for i := 0; i < g.Range(1, 4); i++ {
			if seq := g.Cat.ShortSeqFor(map[string]string{"emacs": "emacs", "vi-insert": "vi-insert", "vi-command": "vi-insert"}[km], Pick(g, pool[:6])); seq != "" {
				sc.Script = append(sc.Script, tok(seq, "keyword-command"))
			}
		}
	}
	sc.Plan = wire.Plan{Policy: "seeded", Class: Pick(g, []string{"S1", "S2"}), Seed: g.Seed()}
	return sc
}

// genC01HistorySearch: a history whose entries begin alike, the beginning of one of them typed, the point
// moved about, and the history search and walk commands mixed with motions (a search takes its text from
// the line being typed up to the point, whatever line is displayed by then).
func genC01HistorySearch(g *Gen) *wire.Scenario {
	mode := Pick(g, []string{"emacs", "emacs", "vi"})
	sc := &wire.Scenario{Prop: "C01", Family: "edit-history-search", Env: g.swarmEnv(mode)}
	pool := []string{"echo first", "echo second line that is longer", "echo", "ls -la /tmp", "ls", "git commit -m 'x'", "git status", "e", "日本語 echo", "echo héllo"}
	var es []string
	for i := 0; i < g.Range(1, 7); i++ {
		es = append(es, Pick(g, pool))
	}
	sc.Env.History = []wire.HistSrc{{Kind: Pick(g, []string{"memory", "file"}), Name: "h0", Entries: es}}
	sc.Env.NoDefaultHistory = true
	km := "emacs"
	if mode == "vi" {
		km = "vi-insert"
	}
	e := Pick(g, es)
	for _, r := range e[:g.N(len(e)+1)] {
		if r < 0x80 {
			sc.Script = append(sc.Script, tok(string(r), "self-insert"))
		}
	}
	if g.P(35) {
		// search, move the point on the line found, search again
		for i := 0; i < g.Range(1, 3); i++ {
			if seq := g.Cat.ShortSeqFor(km, "backward-char"); seq != "" {
				sc.Script = append(sc.Script, tok(seq, "backward-char"))
			}
		}
		for i := 0; i < g.Range(1, 2); i++ {
			for _, cmd := range []string{Pick(g, []string{"history-search-backward", "history-search-backward", "history-search-forward"}), Pick(g, []string{"end-of-line", "end-of-line", "forward-word", "beginning-of-line", "previous-history"})} {
				if seq := g.Cat.ShortSeqFor(km, cmd); seq != "" {
					sc.Script = append(sc.Script, tok(seq, cmd))
				}
			}
		}
	}
	cmds := []string{"history-search-backward", "history-search-backward", "history-search-forward", "history-substring-search-backward", "history-substring-search-forward",
		"previous-history", "next-history", "beginning-of-history", "end-of-history", "backward-char", "backward-char", "forward-char", "end-of-line", "beginning-of-line",
		"backward-word", "forward-word", "backward-delete-char", "kill-line", "undo", "up-line-or-search", "down-line-or-search", "up-line-or-history", "down-line-or-history", "yank-last-arg"}
	for i := 0; i < g.Range(3, 14); i++ {
		if g.P(10) {
			sc.Script = append(sc.Script, tok(string(Pick(g, []rune("eclg s"))), "self-insert"))
			continue
		}
		cmd := Pick(g, cmds)
		if seq := g.Cat.ShortSeqFor(km, cmd); seq != "" {
			sc.Script = append(sc.Script, tok(seq, cmd))
		}
	}
	if g.P(40) {
		sc.Script = append(sc.Script, tok("\r", "accept-line"))
	}
	sc.Plan = wire.Plan{Policy: "seeded", Class: Pick(g, []string{"S1", "S2"}), Seed: g.Seed()}
	return sc
}

// genC01Macros: keyboard macros whose recording contains keys that run macros (the one being recorded, the last
// one, another register), nested recordings, and replays with a count: a replay has to end.
func genC01Macros(g *Gen) *wire.Scenario {
	mode := Pick(g, []string{"emacs", "vi"})
	sc := &wire.Scenario{Prop: "C01", Family: "edit-macros", Env: g.swarmEnv(mode)}
	typ := func(n int) {
		for i := 0; i < n; i++ {
			sc.Script = append(sc.Script, tok(string(Pick(g, []rune("ab c"))), "self-insert"))
		}
	}
	if mode == "emacs" {
		for round := 0; round < g.Range(1, 3); round++ {
			sc.Script = append(sc.Script, tok("\x18(", "start-kbd-macro"))
			typ(g.Range(0, 2))
			for i := 0; i < g.Range(0, 2); i++ {
				sc.Script = append(sc.Script, Pick(g, []wire.Token{tok("\x18e", "call-last-kbd-macro"), tok("\x18(", "start-kbd-macro"), tok("\x1b2", "digit-argument"), tok("\x18e", "call-last-kbd-macro")}))
				typ(g.N(2))
			}
			sc.Script = append(sc.Script, tok("\x18)", "end-kbd-macro"))
			for i := 0; i < g.Range(1, 2); i++ {
				if g.P(30) {
					sc.Script = append(sc.Script, tok("\x1b3", "digit-argument"))
				}
				sc.Script = append(sc.Script, tok("\x18e", "call-last-kbd-macro"))
			}
		}
	} else {
		typ(g.Range(0, 2))
		sc.Script = append(sc.Script, tok("\x1b", "vi-movement-mode"))
		for round := 0; round < g.Range(1, 3); round++ {
			reg := Pick(g, []string{"a", "a", "b"})
			sc.Script = append(sc.Script, tok("q", "macro-toggle-record"), tok(reg, "arg-key"))
			for i := 0; i < g.Range(0, 3); i++ {
				switch g.N(4) {
				case 0:
					sc.Script = append(sc.Script, tok("@", "macro-run"), tok(Pick(g, []string{reg, "a", "b", "@"}), "arg-key"))
				case 1:
					sc.Script = append(sc.Script, tok("i", "vi-insertion-mode"))
					typ(1)
					sc.Script = append(sc.Script, tok("\x1b", "vi-movement-mode"))
				default:
					sc.Script = append(sc.Script, tok(Pick(g, []string{"x", "h", "l", "p", "0"}), "vi-key"))
				}
			}
			sc.Script = append(sc.Script, tok("q", "macro-toggle-record"))
			for i := 0; i < g.Range(1, 2); i++ {
				if g.P(30) {
					sc.Script = append(sc.Script, tok("3", "vi-arg-digit"))
				}
				sc.Script = append(sc.Script, tok("@", "macro-run"), tok(Pick(g, []string{reg, "a", "b", "@"}), "arg-key"))
			}
		}
	}
	typ(1)
	sc.Script = append(sc.Script, tok("\r", "accept-line"))
	sc.Plan = wire.Plan{Policy: "seeded", Class: "S1", Seed: g.Seed()}
	return sc
}

func genC01(g *Gen, tier string, idx int) *wire.Scenario {
	if idx%16 == 1 {
		return genC01Macros(g)
	}
	if idx%16 == 9 {
		return genC01HistorySearch(g)
	}
	if idx%16 == 5 {
		return genC01Autosuggest(g)
	}
	if idx%16 == 13 {
		return genC01Keyword(g)
	}
	if idx%8 == 7 {
		return genC01ViStructured(g)
	}
	if idx%8 == 6 {
		return genC01MultiPrompt(g)
	}
	mode := "emacs"
	if g.P(55) {
		mode = "vi"
	}
	sc := &wire.Scenario{Prop: "C01", Family: "edit", Env: g.swarmEnv(mode)}
	n := g.Range(2, 14)
	if g.P(12) {
		n = g.Range(15, 40)
	}
	o := ScriptOpts{Mode: mode, N: n, Unicode: g.P(30), RawPct: Pick(g, []int{5, 20, 40}), EndAccept: g.P(55)}
	if mode == "vi" && g.P(60) {
		sc.Script = append(sc.Script, tok("\x1b", "vi-movement-mode"))
		sc.Script = append(sc.Script, g.editScriptTracker(tracker{main: "vi-command"}, o)...)
	} else {
		sc.Script = append(sc.Script, g.EditScript(o)...)
	}
	sc.Plan = wire.Plan{Policy: "seeded", Class: "S2", Seed: g.Seed()}
	switch idx % 4 {
	case 0:
		sc.Plan.Class = "S1"
	case 1:
		sc.Plan.Class = "S2"
	default:
		sc.Plan.Class = "S3"
		sc.Plan.Faults = g.faultPlan(len(sc.Script), true)
	}
	// no resize here: the statement is about keyboard input and its failures; resizes and
	// asynchronous prints during an edit are C20's
	return sc
}

func execC01(x *Ctx, sc *wire.Scenario) *wire.Result {
	res := okResult(sc)
	hooks := sim.Hooks{}
	if sc.Family == "edit-multi-prompt" || sc.Family == "edit-keyword" {
		calls := 1
		for _, t := range sc.Script {
			if t.Cmd == "prompt-end" {
				calls++
			}
		}
		hooks.Body = func(s *sim.Session, sh *readlineShell) {
			for i := 0; i < calls; i++ {
				s.Readline(sh)
			}
		}
	}
	out := runSession(x, sc, sc.Plan, hooks, false)
	absorb(res, out)
	res.Nontrivial = out.Steps > 6
	if out.End == "LIVELOCK" && macrosRunEachOther(sc.Script) {
		// a listed finding with a name of its own (the general livelock names must stay free for anything else)
		return violation(res, "LIVELOCK", "C01.no-livelock", "livelock:keyboard-macros-that-run-each-other",
			"no input progress for more than 1500 scheduler steps while replaying vi keyboard macros whose recordings run one another: "+out.EndDetail)
	}
	if crashOracle(res, out, "C01") {
		return res
	}
	return res
}

// macrosRunEachOther: the script records vi keyboard macros into two registers or more, and the recordings
// contain keys that run the other's register (directly, or the last one with @@): replaying one runs the
// other, which runs the first again.
func macrosRunEachOther(script []wire.Token) bool {
	edges := map[string]map[string]bool{}
	rec := ""
	for i := 0; i+1 < len(script); i++ {
		t, arg := script[i], string(script[i+1].B)
		switch {
		case t.Cmd == "macro-toggle-record" && rec == "":
			rec = arg
			i++
		case t.Cmd == "macro-toggle-record":
			rec = ""
		case t.Cmd == "macro-run" && rec != "":
			if edges[rec] == nil {
				edges[rec] = map[string]bool{}
			}
			edges[rec][arg] = true
			i++
		}
	}
	for a, to := range edges {
		for b := range to {
			if b == "@" && len(edges) > 1 {
				return true
			}
			if b != a && (edges[b][a] || edges[b]["@"]) {
				return true
			}
		}
	}
	return false
}
