package props

import (
	"fmt"
	"strings"

	"verifsim/sim"
	"verifsim/wire"
)

// removedRun finds the contiguous run whose removal turns a into b.
func removedRun(a, b string) (run string, at int, ok bool) {
	ra, rb := []rune(a), []rune(b)
	if len(rb) > len(ra) {
		return "", 0, false
	}
	p := 0
	for p < len(rb) && ra[p] == rb[p] {
		p++
	}
	n := len(ra) - len(rb)
	if string(ra[:p])+string(ra[p+n:]) != b {
		return "", 0, false
	}
	return string(ra[p : p+n]), p, true
}

// isRemovalOf reports whether removing run somewhere in a gives b.
func isRemovalOf(a, b, run string) bool {
	ra, rr := []rune(a), []rune(run)
	n := len(rr)
	if len([]rune(b)) != len(ra)-n {
		return false
	}
	for p := 0; p+n <= len(ra); p++ {
		if string(ra[p:p+n]) == run && string(ra[:p])+string(ra[p+n:]) == b {
			return true
		}
	}
	return false
}

// setupBuffer emits keys that build a buffer and place the cursor.
func (g *Gen) setupBuffer(env *wire.Env, mode string, uni bool) (script []wire.Token, text string) {
	km := "emacs"
	if mode == "vi" {
		km = "vi-insert"
	}
	words := g.Range(0, 5)
	var sb strings.Builder
	for i := 0; i < words; i++ {
		switch g.N(6) {
		case 0:
			sb.WriteString("\"" + g.word(false, 4) + " " + g.word(false, 3) + "\"")
		case 1:
			sb.WriteString("(" + g.word(false, 3) + ")")
		case 2:
			sb.WriteString("--" + g.word(false, 4))
		case 3:
			sb.WriteString("'" + g.word(false, 3) + "'")
		default:
			sb.WriteString(g.word(false, 6))
		}
		if i < words-1 {
			sb.WriteString(Pick(g, []string{" ", "  ", " ", "\t"}))
		}
	}
	text = strings.Map(func(r rune) rune {
		if r == '\\' {
			return '/'
		}
		return r
	}, sb.String())
	if uni && len(env.History) > 0 {
		// multi-byte text cannot be typed on the pinned tree (C02): recall it from history
		script = append(script, tok(g.Cat.ShortSeqFor(km, "previous-history"), "previous-history"))
		text = env.History[0].Entries[len(env.History[0].Entries)-1]
	} else {
		for _, r := range text {
			if r == '\t' {
				script = append(script, tok(g.Cat.ShortSeqFor(km, "tab-insert"), "tab-insert"))
				continue
			}
			script = append(script, tok(string(r), "self-insert"))
		}
		if env.Multiline != "" && g.P(50) {
			script = append(script, tok("\\", "self-insert"), tok("\r", "accept-line"))
			tail := g.word(false, 5) + " " + g.word(false, 3)
			if g.P(25) {
				tail = "" // the buffer ends with the newline: an open, empty last line
			}
			for _, r := range tail {
				script = append(script, tok(string(r), "self-insert"))
			}
			text += "\\\n" + tail
		}
	}
	// place the cursor
	n := len([]rune(text))
	switch g.N(4) {
	case 0: // end
	case 1:
		script = append(script, tok(g.Cat.ShortSeqFor(km, "beginning-of-line"), "beginning-of-line"))
	default:
		back := g.N(n + 1)
		for i := 0; i < back; i++ {
			script = append(script, tok(g.Cat.ShortSeqFor(km, "backward-char"), "backward-char"))
		}
	}
	return script, text
}

// ---------------------------------------------------------------- C16

func init() {
	register(&Family{ID: "C16", Gen: genC16, Exec: execC16, Budget: budget(4000, 400000)})
}

var emacsKills = []string{"kill-line", "backward-kill-line", "unix-line-discard", "kill-word", "backward-kill-word",
	"unix-word-rubout", "kill-whole-line", "kill-region", "shell-kill-word", "shell-backward-kill-word"}

type c16X struct {
	Kills []int  `json:"kills"` // token indexes of the kill commands
	Yank  int    `json:"yank"`  // token index of the yank
	Vi    bool   `json:"vi"`
	Yank2 int    `json:"yank2,omitempty"` // token index of a second yank of the same kill, after edits that are not kills
	Warm  int    `json:"warm,omitempty"`  // tokens of an earlier Readline call on the same shell, left without accepting a line
	Reg   string `json:"reg,omitempty"`   // vi: the register named before the kill and before the put
}

func genC16(g *Gen, tier string, idx int) *wire.Scenario {
	vi := g.P(25)
	mode := "emacs"
	if vi {
		mode = "vi"
	}
	sc := &wire.Scenario{Prop: "C16", Family: "kill"}
	env := wire.Env{Mode: mode, Prompt: "> ", W: Pick(g, []int{20, 80, 200}), H: 30, NoDefaultHistory: true}
	env.History = []wire.HistSrc{{Kind: "memory", Name: "h0", Entries: []string{"日本語 テキスト wide", "héllo wörld ünï"}}}
	if g.P(50) {
		env.History[0].Entries = []string{"héllo wörld ünï", "日本語 テキスト wide"}
	}
	if g.P(30) {
		env.Multiline = "backslash"
	}
	// configuration variables that touch the selection machinery the kill commands go through
	if g.P(30) {
		env.Inputrc = append(env.Inputrc, "set blink-matching-paren on")
	}
	if g.P(10) {
		env.Inputrc = append(env.Inputrc, "set mark-modified-lines on")
	}
	env.Binds = g.Cat.Extra
	script, _ := g.setupBuffer(&env, mode, g.P(25))
	x := c16X{Vi: vi}
	if vi && g.P(20) {
		// an earlier call on the same shell in which a register was named and nothing done with it, left by an
		// interrupt: what a call leaves pending does not reach the next one
		warm := []wire.Token{tok("\x1b", "warm:vi-movement-mode"), tok("\"", "warm:vi-set-buffer"), tok(Pick(g, []string{"a", "b", "1"}), "warm:register")}
		warm = append(warm, tok("\x03", "warm:interrupt"))
		x.Warm = len(warm)
		// (the next call starts in the keymap the interrupted one was in: command mode; its buffer is a recalled entry)
		script = append(warm, tok("k", "history-walk"), tok("0", "vi-move"))
	}
	km := "emacs"
	// the kills and the yank happen while a keyboard macro is being recorded
	recording := g.P(15)
	if recording && !vi {
		script = append(script, tok(g.Cat.ShortSeqFor(km, "start-kbd-macro"), "start-kbd-macro"))
	}
	if vi {
		if x.Warm == 0 {
			script = append(script, tok("\x1b", "vi-movement-mode"))
		}
		km = "vi-command"
		if recording {
			script = append(script, tok(g.Cat.ShortSeqFor(km, "macro-toggle-record"), "macro-toggle-record"), tok("a", "macro-register"))
		}
		cmd := "vi-delete" // the statement names delete-character (x) followed by put-before (P)
		if g.P(25) && g.Cat.ShortSeqFor(km, "vi-rubout") != "" {
			cmd = "vi-rubout" // ... and X is the same command looking the other way
			script = append(script, tok("$", "vi-move"))
		}
		if g.P(30) {
			script = append(script, tok(fmt.Sprint(g.Range(2, 4)), "vi-arg-digit"))
		}
		if g.P(12) {
			// more kills than the editor keeps registers for, each a separate x somewhere else
			script = append(script, tok("0", "vi-move"))
			for k := 0; k < g.Range(10, 13); k++ {
				x.Kills = append(x.Kills, len(script))
				script = append(script, tok(g.Cat.ShortSeqFor(km, cmd), cmd))
				script = append(script, tok("l", "vi-move"))
			}
		}
		// a named register for the kill and for the put (letters, and the digits that name the numbered ones)
		if x.Warm == 0 && !recording && len(x.Kills) == 0 && g.P(25) {
			x.Reg = Pick(g, []string{"a", "b", "z", "1", "5", "9"})
			script = append(script, tok("\"", "vi-set-buffer"), tok(x.Reg, "register"))
		}
		x.Kills = append(x.Kills, len(script))
		script = append(script, tok(g.Cat.ShortSeqFor(km, cmd), cmd))
		if x.Reg != "" {
			script = append(script, tok("\"", "vi-set-buffer"), tok(x.Reg, "register"))
		}
		x.Yank = len(script)
		script = append(script, tok(g.Cat.ShortSeqFor(km, "vi-put-before"), "vi-put-before"))
	} else {
		nk := 1
		if g.P(25) {
			nk = g.Range(2, 4)
		}
		if g.P(12) {
			// more kills than the editor keeps registers for: type a word, kill it, again and again
			for k := 0; k < g.Range(10, 13); k++ {
				script = append(script, tok(g.Cat.ShortSeqFor(km, "end-of-line"), "move"))
				for _, r := range " w" + string(rune('a'+k)) {
					script = append(script, tok(string(r), "self-insert"))
				}
				x.Kills = append(x.Kills, len(script))
				cmd := Pick(g, []string{"unix-word-rubout", "backward-kill-word"})
				script = append(script, tok(g.Cat.ShortSeqFor(km, cmd), cmd))
				script = append(script, tok(g.Cat.ShortSeqFor(km, "beginning-of-line"), "move"))
			}
		}
		for k := 0; k < nk; k++ {
			cmd := Pick(g, emacsKills)
			if cmd == "kill-region" {
				script = append(script, tok(g.Cat.ShortSeqFor(km, "set-mark"), "set-mark"))
				for i := 0; i < g.Range(1, 6); i++ {
					script = append(script, tok(g.Cat.ShortSeqFor(km, Pick(g, []string{"backward-char", "forward-char", "backward-word", "forward-word"})), "move"))
				}
				// the region is made visible (and the point put at either end of it) by exchanging point and mark
				for i := 0; i < g.N(3); i++ {
					if seq := g.Cat.ShortSeqFor(km, "exchange-point-and-mark"); seq != "" {
						script = append(script, tok(seq, "move"))
					}
				}
			}
			if g.P(30) {
				d := Pick(g, []string{"2", "3", "0", "-", "-2"})
				for _, c := range d {
					script = append(script, tok("\x1b"+string(c), "digit-argument"))
				}
			}
			x.Kills = append(x.Kills, len(script))
			script = append(script, tok(g.Cat.ShortSeqFor(km, cmd), cmd))
			if k < nk-1 {
				// move somewhere else so that the next kill is a separate one
				for i := 0; i < g.Range(1, 4); i++ {
					script = append(script, tok(g.Cat.ShortSeqFor(km, Pick(g, []string{"backward-char", "forward-char", "beginning-of-line", "end-of-line"})), "move"))
				}
			}
		}
		x.Yank = len(script)
		script = append(script, tok(g.Cat.ShortSeqFor(km, "yank"), "yank"))
		if g.P(25) {
			// the user goes on editing (no kill among it) and yanks the same text again
			for i := 0; i < g.Range(1, 5); i++ {
				script = append(script, tok(g.Cat.ShortSeqFor(km, Pick(g, []string{"backward-char", "backward-char", "forward-char", "beginning-of-line", "end-of-line", "backward-word"})), "move"))
			}
			for i := 0; i < g.Range(1, 3); i++ {
				script = append(script, tok(string(Pick(g, []rune("XYZ "))), "self-insert"))
			}
			for i := 0; i < g.N(3); i++ {
				script = append(script, tok(g.Cat.ShortSeqFor(km, Pick(g, []string{"backward-char", "forward-char", "end-of-line"})), "move"))
			}
			x.Yank2 = len(script)
			script = append(script, tok(g.Cat.ShortSeqFor(km, "yank"), "yank"))
		}
	}
	sc.Env = env
	sc.Script = script
	sc.X = mustJSON(x)
	sc.Plan = wire.Plan{Policy: "canonical", Class: "S0"}
	return sc
}

func execC16(x *Ctx, sc *wire.Scenario) *wire.Result {
	res := okResult(sc)
	var xx c16X
	jsonInto(sc.X, &xx)
	hooks := sim.Hooks{}
	if xx.Warm > 0 {
		hooks.Body = func(s *sim.Session, sh *readlineShell) {
			s.Readline(sh)
			s.Readline(sh)
		}
	}
	out := runSession(x, sc, sc.Plan, hooks, false)
	absorb(res, out)
	if out.End == "PANIC" || out.End == "DEADLOCK" || out.End == "LIVELOCK" {
		res.Counters["skipped:crash"]++
		return res
	}
	if xx.Warm > 0 && (len(out.Returns) == 0 || out.Returns[0].Err == "") {
		res.Counters["skipped:warm_up_call_not_left_by_an_error"]++
		return res
	}
	lastR := ""
	var b0Single, b1Last *sim.Snap
	for _, ki := range xx.Kills {
		b0 := waitAfter(out, ki)
		b1 := waitAfter(out, ki+1)
		if b0 == nil || b1 == nil || b0.Kind != "main" {
			return res
		}
		cmd := sc.Script[ki].Cmd
		run, _, ok := removedRun(b0.Line, b1.Line)
		if !ok {
			return violation(res, "MISMATCH", "C16.kill-removes-one-run", "kill-not-contiguous:"+cmd,
				fmt.Sprintf("%s turned %q (cursor %d) into %q, which is not the buffer minus one contiguous run", cmd, b0.Line, b0.Pos, b1.Line))
		}
		if run != "" {
			res.Nontrivial = true
			if b1.Kill != run && isRemovalOf(b0.Line, b1.Line, b1.Kill) {
				run = b1.Kill // the same result can come from removing another, equal-effect run
			}
			if b1.Kill != run && xx.Reg == "" { // (a kill into a named register is judged by what the put gives back)
				return violation(res, "MISMATCH", "C16.kill-buffer-holds-removed-text", "kill-buffer-differs:"+cmd,
					fmt.Sprintf("%s removed %q from %q (cursor %d) but the kill buffer holds %q", cmd, run, b0.Line, b0.Pos, b1.Kill))
			}
			lastR = run
		}
		b0Single, b1Last = b0, b1
	}
	y0 := waitAfter(out, xx.Yank)
	y1 := waitAfter(out, xx.Yank+1)
	if y0 == nil || y1 == nil || lastR == "" {
		return res
	}
	ins, _, ok := removedRun(y1.Line, y0.Line)
	if ok && ins != lastR && isRemovalOf(y1.Line, y0.Line, lastR) {
		ins = lastR
	}
	if !ok || ins != lastR {
		sig := "yank-differs:" + sc.Script[xx.Yank].Cmd + ":after-" + sc.Script[xx.Kills[len(xx.Kills)-1]].Cmd
		if xx.Reg != "" {
			cls := "letter"
			if xx.Reg[0] >= '0' && xx.Reg[0] <= '9' {
				cls = "digit"
			}
			sig += ":named-register:" + cls
		}
		if k := xx.Kills[len(xx.Kills)-1]; k > 0 && sc.Script[k-1].Cmd == "digit-argument" && ok && len(ins) > len(lastR) && strings.Repeat(lastR, len(ins)/len(lastR)) == ins {
			// the numeric argument typed for the kill is applied to the yank again
			sig = "yank-differs:numeric-argument-of-the-kill-repeats-the-yank"
		}
		if xx.Vi && ok && strings.HasSuffix(lastR, "\n") && (ins == lastR+"\n" || ins == "\n"+lastR) {
			// the listed line-wise put: register text that ends with a newline is put as a line of its own
			// (named after x whichever of x and X took the text: one defect, the put)
			sig = "kill-yank-not-identity:vi-delete:killed-text-ends-with-a-newline"
		}
		return violation(res, "MISMATCH", "C16.yank-inserts-last-kill", sig,
			fmt.Sprintf("the last kill removed %q; yank turned %q into %q (inserted %q)", lastR, y0.Line, y1.Line, ins))
	}
	if xx.Yank2 > xx.Yank {
		z0, z1 := waitAfter(out, xx.Yank2), waitAfter(out, xx.Yank2+1)
		if z0 != nil && z1 != nil && z0.Kind == "main" {
			ins2, _, ok2 := removedRun(z1.Line, z0.Line)
			if ok2 && ins2 != lastR && isRemovalOf(z1.Line, z0.Line, lastR) {
				ins2 = lastR
			}
			res.Counters["checked:second_yank_after_edits"]++
			if !ok2 || ins2 != lastR {
				return violation(res, "MISMATCH", "C16.yank-inserts-last-kill", "second-yank-differs:after-edits-that-are-not-kills",
					fmt.Sprintf("the last kill removed %q and the first yank inserted it; after moves and typed characters (no kill) yank turned %q into %q (inserted %q)", lastR, z0.Line, z1.Line, ins2))
			}
		}
	}
	if len(xx.Kills) == 1 && xx.Yank == xx.Kills[0]+1 {
		// vi: when the deletion reaches the end of the line the cursor steps back onto the
		// last character, so put-before no longer inserts "at the same point" (as in vi itself)
		viAtEnd := xx.Vi && (b0Single.Pos >= len([]rune(b0Single.Line))-1 || b1Last.Pos != b0Single.Pos)
		if !viAtEnd && y1.Line != b0Single.Line {
			sig := "kill-yank-not-identity:" + sc.Script[xx.Kills[0]].Cmd
			if strings.HasSuffix(lastR, "\n") {
				sig += ":killed-text-ends-with-a-newline" // put then works line-wise
				if xx.Vi {
					sig = "kill-yank-not-identity:vi-delete:killed-text-ends-with-a-newline"
				}
			}
			return violation(res, "MISMATCH", "C16.kill-then-yank-restores", sig,
				fmt.Sprintf("%s then yank at the same point: %q (cursor %d) -> %q -> %q", sc.Script[xx.Kills[0]].Cmd, b0Single.Line, b0Single.Pos, b1Last.Line, y1.Line))
		}
	}
	if sc.Index%400 == 0 {
		res.Sample = sample(sc, map[string]any{"removed": lastR, "after_yank": y1.Line})
	}
	return res
}

// ---------------------------------------------------------------- C17

func init() {
	register(&Family{ID: "C17", Gen: genC17, Exec: execC17, Budget: budget(3000, 500000)})
}

type c17X struct {
	Setup  int    `json:"setup"` // number of setup tokens (shared)
	Motion string `json:"motion"`
	Count  string `json:"count"`
	Visual bool   `json:"visual"`
	Warm   int    `json:"warm,omitempty"` // tokens of an earlier Readline call of the same shell (the buffer is then put from its kill)
}

var viMotions = []string{"h", "l", "w", "b", "e", "W", "B", "E", "0", "$", "^", "%", "ge", "gE", "iw", "aw", "iW", "aW", "ia", "aa",
	"i\"", "a\"", "i'", "a'", "i(", "a(", "i[", "a[", "i{", "a{", "fX", "FX", "tX", "TX", "|", ";", ","}

func genC17(g *Gen, tier string, idx int) *wire.Scenario {
	sc := &wire.Scenario{Prop: "C17", Family: "vioper"}
	env := wire.Env{Mode: "vi", Prompt: "> ", W: Pick(g, []int{30, 80, 200}), H: 30, NoDefaultHistory: true}
	env.History = []wire.HistSrc{{Kind: "memory", Name: "h0", Entries: []string{"日本語 (テキスト) wide", "héllo \"wörld\" ünï"}}}
	if g.P(20) {
		env.Multiline = "backslash"
	}
	// configuration variables that touch the selection machinery the operators go through
	if g.P(30) {
		env.Inputrc = append(env.Inputrc, "set blink-matching-paren on")
	}
	if g.P(10) {
		env.Inputrc = append(env.Inputrc, "set mark-modified-lines on")
	}
	env.Binds = g.Cat.Extra
	script, text := g.setupBuffer(&env, "vi", g.P(15))
	warm := 0
	if g.P(15) {
		// the buffer comes out of the kill buffer instead: an earlier Readline call of the same shell killed
		// this text, the new prompt puts it on the empty line and moves away from its start
		text = Pick(g, []string{"hello world", "foo (bar) baz", "a bb ccc dddd", "x.y z-w q"})
		script = nil
		for _, r := range text {
			script = append(script, tok(string(r), "self-insert"))
		}
		script = append(script, tok("\x1b", "vi-movement-mode"), tok("0", "vi-move"), tok("D", "vi-kill-eol"), tok("\r", "accept-line"))
		warm = len(script)
		script = append(script, tok("\x1b", "vi-movement-mode"), tok(Pick(g, []string{"p", "P"}), "vi-put"))
		for i := 0; i < g.N(3); i++ {
			script = append(script, tok(Pick(g, []string{"w", "l", "0", "b", "w"}), "vi-move"))
		}
	}
	script = append(script, tok("\x1b", "vi-movement-mode"))
	x := c17X{Setup: len(script), Warm: warm}
	m := Pick(g, viMotions)
	if strings.HasSuffix(m, "X") && len(m) == 2 {
		c := "x"
		if rs := []rune(text); len(rs) > 0 && g.P(75) {
			c = string(rs[g.N(len(rs))])
		}
		if c == "\n" || c == "\t" {
			c = "a"
		}
		m = m[:1] + c
	}
	x.Motion = m
	if g.P(35) {
		x.Count = fmt.Sprint(g.Range(1, 3))
	}
	x.Visual = g.P(25) && !strings.HasPrefix(m, "i") && !strings.HasPrefix(m, "a")
	sc.Env = env
	sc.Script = script
	sc.X = mustJSON(x)
	sc.Plan = wire.Plan{Policy: "canonical", Class: "S0"}
	return sc
}

func c17Script(sc *wire.Scenario, x c17X, op string) []wire.Token {
	s := append([]wire.Token(nil), sc.Script[:x.Setup]...)
	keys := func(str, cmd string) {
		// each key is its own token; multi-key motions (ge, iw, fX) are typed key by key
		for _, r := range str {
			s = append(s, tok(string(r), cmd))
		}
	}
	if x.Visual {
		keys("v", "vi-visual-mode")
		keys(x.Count, "count")
		keys(x.Motion, "motion")
		keys(op, "operator")
	} else {
		keys(x.Count, "count")
		keys(op, "operator")
		keys(x.Motion, "motion")
	}
	return s
}

func execC17(x *Ctx, sc *wire.Scenario) *wire.Result {
	res := okResult(sc)
	var xx c17X
	jsonInto(sc.X, &xx)
	run := func(op string) (*sim.Outcome, *sim.Snap) {
		s2 := *sc
		s2.Script = c17Script(sc, xx, op)
		hooks := sim.Hooks{}
		if xx.Warm > 0 {
			hooks.Body = func(s *sim.Session, sh *readlineShell) {
				s.Readline(sh)
				s.Readline(sh)
			}
		}
		out := runSession(x, &s2, sc.Plan, hooks, false)
		absorb(res, out)
		return out, waitAfter(out, xx.Setup)
	}
	od, b0d := run("d")
	oy, b0y := run("y")
	for _, o := range []*sim.Outcome{od, oy} {
		if o.End == "PANIC" || o.End == "DEADLOCK" || o.End == "LIVELOCK" {
			res.Counters["skipped:crash"]++
			return res
		}
	}
	if b0d == nil || b0y == nil || od.FinalSnap == nil || oy.FinalSnap == nil {
		return res
	}
	if b0d.Line != b0y.Line || b0d.Pos != b0y.Pos {
		return res // the shared setup did not reach the same state (not this property's business)
	}
	fd, fy := od.FinalSnap, oy.FinalSnap
	if fd.Kind == "final" && (od.End != "WAITING" || oy.End != "WAITING") {
		return res
	}
	what := xx.Count + "d/y " + xx.Motion
	if xx.Visual {
		what = "v " + xx.Count + xx.Motion + " d/y"
	}
	mcls := xx.Motion
	if len(mcls) == 2 && strings.ContainsAny(mcls[:1], "fFtT") {
		mcls = mcls[:1] + "<c>"
	}
	if xx.Visual {
		mcls = "visual:" + mcls
	}
	ctx := fmt.Sprintf("%s from buffer %q cursor %d", what, b0d.Line, b0d.Pos)
	res.Nontrivial = true
	if fy.Line != b0y.Line {
		return violation(res, "MISMATCH", "C17.yank-leaves-buffer", "yank-edits:"+mcls, fmt.Sprintf("%s: yank changed the buffer to %q", ctx, fy.Line))
	}
	r, _, ok := removedRun(b0d.Line, fd.Line)
	if !ok {
		return violation(res, "MISMATCH", "C17.delete-removes-one-run", "delete-not-contiguous:"+mcls, fmt.Sprintf("%s: delete left %q, which is not the buffer minus one contiguous run", ctx, fd.Line))
	}
	killD, killY := fd.Kill, fy.Kill
	if r != "" && killD != r && isRemovalOf(b0d.Line, fd.Line, killD) {
		r = killD
	}
	if r != "" && killD != r {
		return violation(res, "MISMATCH", "C17.delete-stores-removed-text", "delete-register-differs:"+mcls, fmt.Sprintf("%s: delete removed %q but stored %q", ctx, r, killD))
	}
	if r != "" && killY != r {
		return violation(res, "MISMATCH", "C17.yank-copies-what-delete-removes", "yank-differs-from-delete:"+mcls,
			fmt.Sprintf("%s: delete removed %q, yank of the same motion copied %q", ctx, r, killY))
	}
	if r == "" && fy.Kill != b0y.Kill {
		return violation(res, "MISMATCH", "C17.yank-copies-what-delete-removes", "yank-copies-delete-removes-nothing:"+mcls,
			fmt.Sprintf("%s: delete removed nothing, but yank of the same motion copied %q", ctx, fy.Kill))
	}
	if sc.Index%400 == 0 {
		res.Sample = sample(sc, map[string]any{"what": what, "buffer": b0d.Line, "cursor": b0d.Pos, "removed": r})
	}
	return res
}

// ---------------------------------------------------------------- C18

func init() {
	register(&Family{ID: "C18", Gen: genC18, Exec: execC18, Budget: budget(3000, 300000)})
}

type c18X struct {
	Setup int          `json:"setup"`
	K     []wire.Token `json:"k"`
	Vi    bool         `json:"vi"`
	Reg   string       `json:"reg"`
	Later bool         `json:"later,omitempty"` // recorded in one Readline call, replayed in the next
}

func genC18(g *Gen, tier string, idx int) *wire.Scenario {
	vi := g.P(40)
	mode := "emacs"
	if vi {
		mode = "vi"
	}
	sc := &wire.Scenario{Prop: "C18", Family: "macro"}
	env := wire.Env{Mode: mode, Prompt: "> ", W: 80, H: 30, NoDefaultHistory: true}
	env.Binds = g.Cat.Extra
	script, _ := g.setupBuffer(&env, mode, false)
	x := c18X{Vi: vi, Reg: string("abcxyz0189"[g.N(10)])}
	n := g.Range(1, 10)
	if vi {
		script = append(script, tok("\x1b", "vi-movement-mode"))
		pool := []string{"h", "l", "w", "b", "e", "0", "$", "x", "X", "~", "p", "P", "D", "dw", "db", "yw", "cw", "i", "a", "A", "I", "rz", "fa", ";", "u",
			// operators with the text objects that take a delimiter key
			"di(", "da(", "di\"", "da\"", "yi(", "di'", "di[", "da{", "yi\"", "diw", "daw", "yiW", "vi(d", "va\"y"}
		for i := 0; i < n; i++ {
			k := Pick(g, pool)
			switch k {
			case "i", "a", "A", "I", "cw":
				x.K = append(x.K, tok(k, "vi-insert-entry"))
				for j := 0; j < g.Range(1, 3); j++ {
					x.K = append(x.K, tok(string(Pick(g, []rune("xy \"\\'z1"))), "self-insert"))
				}
				x.K = append(x.K, tok("\x1b", "vi-movement-mode"))
			default:
				if g.P(15) {
					x.K = append(x.K, tok(fmt.Sprint(g.Range(2, 3)), "vi-arg-digit"))
					if k == "0" {
						k = "$" // a 0 here would continue the count
					}
				}
				x.K = append(x.K, tok(k, "vi-cmd"))
			}
		}
	} else {
		pool := []string{"beginning-of-line", "end-of-line", "backward-char", "forward-char", "delete-char", "backward-delete-char",
			"kill-line", "yank", "transpose-chars", "forward-word", "backward-word", "kill-word", "backward-kill-word",
			"capitalize-word", "upcase-word", "unix-word-rubout", "set-mark", "exchange-point-and-mark", "quoted-insert"}
		for i := 0; i < n; i++ {
			switch g.N(10) {
			case 0, 1, 2:
				x.K = append(x.K, tok(string(Pick(g, []rune("ab \"\\'(z;"))), "self-insert"))
			case 3:
				x.K = append(x.K, tok("\x1b"+fmt.Sprint(g.Range(2, 4)), "digit-argument"))
			case 4:
				x.K = append(x.K, tok(Pick(g, []string{"\x1b[A", "\x1b[D", "\x1b[C", "\x1bOD", "\x1b[1;5D", "\x1b[3~"}), "arrow-key"))
			default:
				cmd := Pick(g, pool)
				seq := g.Cat.SeqFor(g, "emacs", cmd)
				if seq == "" || strings.HasPrefix(seq, "\x18(") || strings.HasPrefix(seq, "\x18)") || strings.HasPrefix(seq, "\x18e") {
					continue
				}
				x.K = append(x.K, tok(seq, cmd))
				if cmd == "quoted-insert" {
					x.K = append(x.K, tok(string(Pick(g, []rune("a\x01\x09;\x1b\x1b"))), "arg-key"))
					if g.P(60) {
						x.K = append(x.K, tok(string(Pick(g, []rune("xyb"))), "self-insert"))
					}
				}
			}
		}
	}
	x.Setup = len(script)
	// the macro is recorded in one Readline call, the line accepted, and the macro replayed in the next call
	x.Later = g.P(15)
	sc.Env = env
	sc.Script = script
	sc.X = mustJSON(x)
	sc.Plan = wire.Plan{Policy: "canonical", Class: "S0"}
	if idx%3 == 1 {
		sc.Plan = wire.Plan{Policy: "seeded", Class: "S1", Seed: g.Seed()}
	}
	return sc
}

func execC18(x *Ctx, sc *wire.Scenario) *wire.Result {
	res := okResult(sc)
	var xx c18X
	jsonInto(sc.X, &xx)
	setup := sc.Script[:xx.Setup]
	// A script that ends in a pending state (a numeric argument not yet used, a command still
	// waiting for its argument key) is not comparable: when it is recorded, the key that ends
	// the recording takes that argument, when it is typed twice its own first key does.
	if n := len(xx.K); n > 0 {
		last := xx.K[n-1].Cmd
		if n > 1 && xx.Vi && string(xx.K[n-1].B) == "0" && xx.K[n-2].Cmd == "vi-arg-digit" {
			last = "vi-arg-digit" // in vi a 0 after a digit continues the count
		}
		switch last {
		case "digit-argument", "vi-arg-digit", "quoted-insert":
			res.Counters["skipped:K_ends_in_pending_state"]++
			return res
		}
	}
	// A: K K
	a := append(append(append([]wire.Token(nil), setup...), xx.K...), xx.K...)
	// B: record K, replay
	var b []wire.Token
	b = append(b, setup...)
	if xx.Vi {
		b = append(b, tok("q", "macro-toggle-record"), tok(xx.Reg, "register"))
		b = append(b, xx.K...)
		b = append(b, tok("q", "macro-toggle-record"), tok("@", "macro-run"), tok(xx.Reg, "register"))
	} else {
		b = append(b, tok("\x18(", "start-kbd-macro"))
		b = append(b, xx.K...)
		b = append(b, tok("\x18)", "end-kbd-macro"), tok("\x18e", "call-last-kbd-macro"))
	}
	hooks := sim.Hooks{}
	if xx.Later {
		// A: K, Return; next call: text, K.   B: record K, Return; next call: text, replay.
		var next []wire.Token
		for _, r := range "one (two) three" {
			next = append(next, tok(string(r), "self-insert"))
		}
		a = append(append(append([]wire.Token(nil), setup...), xx.K...), tok("\r", "accept-line"))
		a = append(a, next...)
		b = b[:len(b)-1] // without the replay key(s)
		if xx.Vi {
			b = b[:len(b)-1]
			a = append(a, tok("\x1b", "vi-movement-mode"))
		}
		a = append(a, xx.K...)
		b = append(b, tok("\r", "accept-line"))
		b = append(b, next...)
		if xx.Vi {
			b = append(b, tok("\x1b", "vi-movement-mode"), tok("@", "macro-run"), tok(xx.Reg, "register"))
		} else {
			b = append(b, tok("\x18e", "call-last-kbd-macro"))
		}
		hooks.Body = func(s *sim.Session, sh *readlineShell) {
			s.Readline(sh)
			s.Readline(sh)
		}
	}
	sa, sb := *sc, *sc
	sa.Script, sb.Script = a, b
	oa := runSession(x, &sa, wire.Plan{Policy: "canonical", Class: "S0"}, hooks, false)
	absorb(res, oa)
	ob := runSession(x, &sb, sc.Plan, hooks, false)
	absorb(res, ob)
	if xx.Vi {
		// the recording must be stopped and the macro run from command mode: if K leaves
		// the editor elsewhere, "q" and "@" are text, not commands (not a macro replay at all)
		stop := waitAfter(ob, xx.Setup+2+len(xx.K))
		if stop == nil || stop.Main != "vi-command" || stop.Local != "" || stop.Kind != "main" {
			res.Counters["skipped:K_does_not_end_in_command_mode"]++
			return res
		}
		if w := waitAfter(oa, xx.Setup+len(xx.K)); w == nil || w.Main != "vi-command" || w.Local != "" || w.Kind != "main" {
			res.Counters["skipped:K_does_not_end_in_command_mode"]++
			return res
		}
	}
	for _, o := range []*sim.Outcome{oa, ob} {
		if o.End != "WAITING" || o.EndDetail != "main" {
			if xx.Later && o == ob && oa.End == "WAITING" && oa.EndDetail == "main" && len(oa.Returns) == 1 && len(ob.Returns) > 1 {
				return violation(res, "MISMATCH", "C18.replay-equals-retyping", "macro-replay-differs:later-call:returns",
					fmt.Sprintf("macro K=%v recorded in one Readline call and replayed in the next: the replay made Readline return %+v; typing K there leaves the line %q being edited",
						scriptSummary(xx.K), ob.Returns[1], oa.FinalSnap.Line))
			}
			res.Counters["skipped:"+strings.ToLower(o.End)]++
			return res
		}
		if xx.Later && len(o.Returns) != 1 {
			res.Counters["skipped:first_call_did_not_return_once"]++
			return res
		}
	}
	if xx.Later {
		res.Counters["checked:replayed_in_a_later_call"]++
	}
	res.Nontrivial = len(xx.K) > 0
	fa, fb := oa.FinalSnap, ob.FinalSnap
	if fa.Line != fb.Line || fa.Pos != fb.Pos {
		style := "emacs"
		if xx.Vi {
			style = "vi"
		}
		cls := "text"
		if fa.Line == fb.Line {
			cls = "cursor"
		}
		feat := map[string]bool{}
		for _, t := range xx.K {
			switch {
			case t.Cmd == "arg-key" && string(t.B) == "\x1b":
				feat["esc-as-argument-key"] = true
			case t.Cmd == "arg-key":
				feat["argument-key"] = true
			case t.Cmd == "digit-argument" || t.Cmd == "vi-arg-digit":
				feat["numeric-argument"] = true
			}
		}
		for _, f := range sortedKeys(feat) {
			cls += ":" + f
		}
		for i, t := range xx.K {
			if xx.Vi && string(t.B) == "\x1b" && i < len(xx.K)-1 {
				// a recorded lone ESC followed by another key: replayed at once they read as one ESC-prefixed sequence
				cls += ":esc-followed-by-key"
				break
			}
		}
		if xx.Later && !strings.Contains(cls, "esc-followed-by-key") {
			cls = "later-call:" + cls // (a lone ESC followed by a key is replayed the same way in any call: the listed finding)
		}
		return violation(res, "MISMATCH", "C18.replay-equals-retyping", "macro-replay-differs:"+style+":"+cls,
			fmt.Sprintf("%s macro K=%v: typing K twice gives %q cursor %d; recording K and replaying it gives %q cursor %d",
				style, scriptSummary(xx.K), fa.Line, fa.Pos, fb.Line, fb.Pos))
	}
	if sc.Index%400 == 0 {
		res.Sample = sample(sc, map[string]any{"K": scriptSummary(xx.K), "result": fa.Line})
	}
	return res
}
