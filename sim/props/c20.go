package props

import (
	"fmt"
	"sort"
	"strings"

	"verifsim/sim"
	"verifsim/wire"
)

// ---------------------------------------------------------------- C20: resizes and async prints

func init() {
	register(&Family{ID: "C20", Gen: genC20, Exec: execC20, Budget: budget(4000, 600000)})
}

// sites at which a disturbance can be pinned, per task kind
var c20MainSites = []string{"inputwait", "inputwait", "inputwait", "loop.top", "loop.refreshed", "wait.entry", "wait.waiting", "wait.read.returned",
	"loop.run.main", "loop.run.local", "refresh.entry", "refresh.computed", "refresh.beforeshow", "cursor.queried", "read.cursor",
	"readkey.entry", "argwait", "acceptline.entry", "report.handoff.before", "report.handoff.after", "cursor.received"}

var c20Kinds = []string{"sigwinch", "sigwinch", "resize", "printf", "printf", "printtransientf"}

type c20X struct {
	Sweep bool `json:"sweep,omitempty"`
	Calls int  `json:"calls,omitempty"` // Readline calls on the one Shell (default 1)
}

func (g *Gen) c20Script(mode string) []wire.Token {
	o := ScriptOpts{Mode: mode, N: g.Range(1, 8), Unicode: false, RawPct: 0, NoAccept: true,
		Exclude: map[string]bool{"edit-command-line": true, "vi-edit-command-line": true, "edit-and-execute-command": true,
			"vi-edit-and-execute-command": true, "re-read-init-file": true, "clear-screen": true, "clear-display": true,
			"dump-functions": true, "dump-variables": true, "dump-macros": true}}
	var s []wire.Token
	for i := 0; i < g.Range(1, 6); i++ {
		s = append(s, tok(string(Pick(g, []rune("abc def"))), "self-insert"))
	}
	if mode == "vi" && g.P(50) {
		s = append(s, tok("\x1b", "vi-movement-mode"))
		s = append(s, g.editScriptTracker(tracker{main: "vi-command"}, o)...)
	} else {
		s = append(s, g.EditScript(o)...)
	}
	return append(s, tok("\r", "accept-line"))
}

func genC20(g *Gen, tier string, idx int) *wire.Scenario {
	mode := Pick(g, []string{"emacs", "emacs", "vi"})
	sc := &wire.Scenario{Prop: "C20", Family: "disturb"}
	env := wire.Env{Mode: mode, Prompt: Pick(g, []string{"> ", "$ ", "prompt> "}), W: Pick(g, []int{20, 40, 80, 120}), H: g.Range(8, 40)}
	env.StartRow = g.N(env.H / 2)
	if idx%5 == 3 {
		env.Prompt = Pick(g, []string{"two\nlines> ", "status: ok\n$ ", "a\nb\nc> "})
	}
	if g.P(40) {
		env.History = []wire.HistSrc{{Kind: "memory", Name: "h0", Entries: []string{"one", "two words", "three"}}}
		env.NoDefaultHistory = true
	}
	if g.P(30) {
		env.Comp = g.compSpec(g.Range(2, 8), false)
	}
	env.Binds = g.Cat.Extra
	sc.Env = env
	x := c20X{}
	sweepN := 0
	if tier == "thorough" {
		sweepN = 120000
	} else {
		sweepN = 600
	}
	if idx < sweepN {
		// systematic sweep: one disturbance at the n-th occurrence of each site, for short scripts
		x.Sweep = true
		perScript := len(c20MainSites) * 3 * 4 // sites x kinds x nth
		sg := NewGen(g.Cat, 424242, "C20-sweep-script", idx/perScript)
		sc.Script = sg.c20Script(mode)
		if len(sc.Script) > 7 {
			sc.Script = append(sc.Script[:6], tok("\r", "accept-line"))
		}
		p := idx % perScript
		site := c20MainSites[p%len(c20MainSites)]
		p /= len(c20MainSites)
		kind := []string{"sigwinch", "printf", "resize"}[p%3]
		p /= 3
		d := wire.Disturb{Kind: kind, Task: "main", Site: site, Nth: 1 + p, Burst: 1}
		if kind == "resize" {
			d.W, d.H = env.W+7, env.H
		}
		sc.Plan = wire.Plan{Policy: "seeded", Class: "S0", Seed: g.Seed(), Disturb: []wire.Disturb{d}, Sites: g.siteSubset(35)}
		if site == "inputwait" && p%2 == 1 {
			sc.Plan.TypeWithReport = 1 // the user keeps typing: the next key shares a read with the answer to the watcher's query
		}
		sc.X = mustJSON(x)
		return sc
	}
	sc.Script = g.c20Script(mode)
	if idx%10 == 9 {
		// two calls on one Shell, the first left with the cursor below the first row of its input (a line wider
		// than the terminal), and a SIGWINCH while the second call is starting up: inside the application's
		// prompt function, the first time it runs in that call
		sc.Env.W = Pick(g, []int{20, 30, 40})
		sc.Env.History = nil
		sc.Env.Comp = nil
		sc.Script = nil
		for j := 0; j < sc.Env.W+g.Range(3, sc.Env.W); j++ {
			sc.Script = append(sc.Script, tok(string("0123456789"[j%10]), "self-insert"))
		}
		sc.Script = append(sc.Script, tok("\r", "accept-line"))
		for _, r := range Pick(g, []string{"ab", "x", "second"}) {
			sc.Script = append(sc.Script, tok(string(r), "self-insert"))
		}
		sc.Script = append(sc.Script, tok("\r", "accept-line"))
		x.Calls = 2
		sc.Plan = wire.Plan{Policy: "seeded", Class: "S0", Seed: g.Seed(), Sites: g.siteSubset(Pick(g, []int{10, 35})),
			Disturb: []wire.Disturb{{Kind: "sigwinch", Task: "main", Site: "app.prompt.first", Nth: g.Range(1, 2), Burst: 1}}}
		sc.X = mustJSON(x)
		return sc
	}
	if idx%10 == 7 {
		// one event while a command reads its argument key (the window of a listed finding: what is judged
		// there is that the call itself goes on -- see the deadlock rule)
		sc.Script = nil
		for _, r := range Pick(g, []string{"ab", "abc a", "xa"}) {
			sc.Script = append(sc.Script, tok(string(r), "self-insert"))
		}
		if mode == "vi" {
			sc.Script = append(sc.Script, tok("\x1b", "vi-movement-mode"), tok(Pick(g, []string{"F", "T", "r", "f"}), "vi-arg-command"), tok("a", "arg-key"))
		} else {
			sc.Script = append(sc.Script, tok(Pick(g, []string{"\x16", "\x1b\x1d"}), "arg-command"), tok("a", "arg-key"))
		}
		sc.Script = append(sc.Script, tok("\r", "accept-line"))
		sc.Plan = wire.Plan{Policy: "seeded", Class: "S0", Seed: g.Seed(), Sites: g.siteSubset(Pick(g, []int{10, 35, 70})),
			Disturb: []wire.Disturb{{Kind: Pick(g, []string{"sigwinch", "printf", "sigwinch"}), Task: "main", Site: "argwait", Nth: 1}}}
		sc.X = mustJSON(x)
		return sc
	}
	isearch := false
	compThenType := false
	if mode == "emacs" && g.P(12) {
		// a completion that is over (its only candidate inserted, or none found, or the candidates
		// only listed), the user typing on, and the event arriving later in the same call
		sc.Env.Comp = &wire.CompSpec{PrefixOnly: true, Cands: []wire.Cand{{Value: "alpha"}, {Value: "beta"}, {Value: "gamma"}, {Value: "gulf"}, {Value: "delta"}}}
		sc.Script = nil
		for _, r := range Pick(g, []string{"alp", "b", "zz", "g", "de"}) {
			sc.Script = append(sc.Script, tok(string(r), "self-insert"))
		}
		sc.Script = append(sc.Script, Pick(g, []wire.Token{tok("\t", "complete"), tok("\t", "complete"), tok("\x1b?", "possible-completions")}))
		for _, r := range Pick(g, []string{" ga", " be", "x", " d", "m", " al"}) {
			sc.Script = append(sc.Script, tok(string(r), "self-insert"))
		}
		sc.Script = append(sc.Script, tok("\r", "accept-line"))
		compThenType = true
	}
	if mode == "emacs" && g.P(12) {
		// an incremental history search in progress (its match shown in the line, not yet accepted)
		sc.Env.History = []wire.HistSrc{{Kind: "memory", Name: "h0", Entries: []string{"one", "two words", "three", "bar two"}}}
		sc.Env.NoDefaultHistory = true
		sc.Script = []wire.Token{tok("\x12", "reverse-search-history")}
		for _, r := range Pick(g, []string{"t", "tw", "o", "thr", "bar", "wo"}) {
			sc.Script = append(sc.Script, tok(string(r), "isearch-char"))
		}
		sc.Script = append(sc.Script, tok("\r", "accept-line"))
		isearch = true
	}
	nd := g.Range(1, 3)
	if g.P(20) {
		nd = g.Range(4, 6)
	}
	plan := wire.Plan{Policy: "seeded", Class: "S0", Seed: g.Seed(), Sites: g.siteSubset(Pick(g, []int{10, 35, 70}))}
	supported := idx%4 == 0 || isearch || compThenType // only the supported window: while main waits for input
	if isearch || compThenType {
		nd = 1
	}
	for i := 0; i < nd; i++ {
		d := wire.Disturb{Kind: Pick(g, c20Kinds), Task: "main", Site: Pick(g, c20MainSites), Nth: g.Range(1, len(sc.Script)+2)}
		if supported {
			d.Site = "inputwait"
		}
		if g.P(20) {
			d.Task = "any"
			d.Site = Pick(g, []string{"resize.woken", "refresh.entry", "cursor.queried", "printf.entry", "printf.beforerefresh", "refresh.computed"})
			d.Nth = g.Range(1, 3)
		}
		if d.Kind == "resize" {
			d.W, d.H = g.Range(10, 160), g.Range(6, 50)
		}
		if (d.Kind == "sigwinch" || d.Kind == "resize") && g.P(30) {
			d.Burst = g.Range(2, 5)
		}
		if (d.Kind == "printf" || d.Kind == "printtransientf") && idx%3 == 1 {
			d.Msg = Pick(g, []string{"\nrow two", "\n2\n3", " and a tail that is long enough to go past the right margin of a narrow terminal", "\n"})
		}
		plan.Disturb = append(plan.Disturb, d)
	}
	if supported && g.P(40) {
		plan.TypeWithReport = g.Range(1, 2)
	}
	sc.Plan = plan
	sc.X = mustJSON(x)
	return sc
}

func execC20(x *Ctx, sc *wire.Scenario) *wire.Result {
	res := okResult(sc)
	var xx c20X
	if len(sc.X) > 0 {
		jsonInto(sc.X, &xx)
	}
	hooks := sim.Hooks{}
	if xx.Calls > 1 {
		hooks.Body = func(s *sim.Session, sh *readlineShell) {
			for i := 0; i < xx.Calls; i++ {
				s.Readline(sh)
			}
		}
	}
	ref := runSession(x, sc, wire.Plan{Policy: "canonical", Class: "S0"}, hooks, true)
	absorb(res, ref)
	if ref.End != "RETURNED" || len(ref.Returns) == 0 {
		res.Counters["skipped:reference_run_did_not_return"]++
		return res
	}
	out := runSession(x, sc, sc.Plan, hooks, true)
	absorb(res, out)
	fired := 0
	var firedList []string
	for k, v := range out.Counters {
		if strings.HasPrefix(k, "disturb:") {
			fired += v
			firedList = append(firedList, strings.TrimPrefix(k, "disturb:"))
		}
	}
	sort.Strings(firedList)
	if fired == 0 {
		res.Counters["skipped:no_disturbance_fired"]++
		return res
	}
	res.Nontrivial = true
	supportedOnly := true
	for _, f := range firedList {
		if !strings.HasSuffix(f, "@inputwait") && !strings.HasSuffix(f, "@argwait") && !strings.HasSuffix(f, "@app.prompt.first") {
			supportedOnly = false
		}
	}
	window := "unsupported-window"
	if supportedOnly {
		window = "while-waiting-for-input"
		for _, f := range firedList {
			if strings.HasSuffix(f, "@argwait") {
				window = "while-reading-an-argument-key"
			}
			if strings.HasSuffix(f, "@app.prompt.first") && window == "while-waiting-for-input" {
				// the call is starting up (the application's prompt function runs): nobody of the library listens
				// for the signal yet, nothing may happen
				window = "while-the-call-starts-up"
			}
		}
	}
	// the kinds of disturbance that ran (a kind that ran more than once is marked): a failure
	// with a single resize while waiting is not the same finding as one needing two Printf callers
	kindCount := map[string]int{}
	for k, v := range out.Counters {
		if strings.HasPrefix(k, "disturb:") {
			kind := strings.TrimPrefix(k, "disturb:")
			kind = kind[:strings.Index(kind, "@")]
			if kind == "resize" {
				kind = "sigwinch"
			}
			if kind == "printtransientf" {
				kind = "printf"
			}
			kindCount[kind] += v
		}
	}
	var kinds []string
	for k, v := range kindCount {
		if v > 1 {
			k += "*"
		}
		kinds = append(kinds, k)
	}
	sort.Strings(kinds)
	// One disturbance, arriving while Readline waits for input, is the case the tree handles: there a
	// failure is named in full (which tasks are blocked, on what). With several disturbances, or one
	// that lands inside the processing of a key, the library's unsynchronised redisplays and cursor
	// position queries fail in many ways that are one defect: the name keeps the failure class,
	// the window and the kinds of disturbance, not how many ran nor which task blocked where.
	// a resize regenerates the completions: with a menu open that is a known way to lose the selection
	// (and the grid that orders the candidates depends on the width)
	// The library keeps the completer of a completion request until the next key that reaches the main
	// keymap: the window is a disturbance arriving with a menu open or directly after a completion key.
	withComp := false
	for _, k := range out.DisturbTok {
		if k > 0 && k <= len(sc.Script) && strings.Contains(sc.Script[k-1].Cmd, "complet") {
			withComp = true
		}
		if w := waitAfter(ref, k); w != nil && w.Local == "menu-select" {
			withComp = true
		}
		// a completion key typed while the watcher's report is still in flight is processed together with it
		for j := k; j < k+sc.Plan.TypeWithReport && j < len(sc.Script); j++ {
			if strings.Contains(sc.Script[j].Cmd, "complet") {
				withComp = true
			}
		}
	}
	if withComp && window == "while-waiting-for-input" {
		// (while an argument key is being read the failure is that window's, with or without completions)
		window = "with-completions-while-waiting-for-input"
	}
	burst := false // several signals at once: the watcher runs again while the first redisplay's consequences are processed
	for _, d := range sc.Plan.Disturb {
		if d.Burst > 1 {
			burst = true
		}
	}
	fine := fired == 1 && !burst && (window == "while-waiting-for-input" || window == "while-the-call-starts-up")
	if !fine {
		for i := range kinds {
			kinds[i] = strings.TrimSuffix(kinds[i], "*")
		}
	}
	window += "|" + strings.Join(kinds, "+")
	dsig := func(blocked string) string {
		if fine {
			return ":" + deadlockSig(blocked)
		}
		return ""
	}
	coarseWindow := window[:strings.Index(window, "|")]
	// name gives the signature: the failure class in full in the supported case, the window alone otherwise
	name := func(cls string) string {
		if fine {
			return cls + "|" + window
		}
		return "disturbed-beyond-one-event-while-waiting|" + coarseWindow
	}
	// (1) no panic
	if out.End == "PANIC" {
		return violation(res, "PANIC", "C20.no-panic", panicSig(out.Panic, out.PanicStack)+":"+window,
			fmt.Sprintf("disturbances %v: panic in task %s: %s\n%s", firedList, out.PanicTask, out.Panic, trimStack(out.PanicStack)))
	}
	// (2) no deadlock, no task left stuck
	switch out.End {
	case "DEADLOCK":
		if !fine && coarseWindow == "while-reading-an-argument-key" && strings.Contains(out.Blocked, "main:blocked-internally") {
			// in this window the unchanged tree hands the report or the key to the wrong reader (the command is
			// aborted, another goroutine may stay blocked), but the call itself always goes on: the main loop
			// blocked for good is another failure and keeps a name of its own
			return violation(res, "DEADLOCK", "C20.no-deadlock", "deadlock:main-loop-blocked|while-reading-an-argument-key",
				fmt.Sprintf("disturbances %v: the main loop itself is blocked for ever, Readline can never return: %s", firedList, out.Blocked))
		}
		return violation(res, "DEADLOCK", "C20.no-deadlock", name("deadlock"+dsig(out.Blocked)),
			fmt.Sprintf("disturbances %v: no event enabled and Readline neither returned nor is parked in a terminal read: %s", firedList, out.Blocked))
	case "LIVELOCK", "BUDGET":
		return violation(res, "LIVELOCK", "C20.no-livelock", name("livelock"+dsig(out.EndDetail)),
			fmt.Sprintf("disturbances %v: no input progress: %s", firedList, out.EndDetail))
	case "WAITING":
		return violation(res, "DEADLOCK", "C20.returns-like-undisturbed", name("stuck-waiting:"+out.EndDetail),
			fmt.Sprintf("disturbances %v: the whole script was typed but Readline is still waiting in a %s read (keys were swallowed); undisturbed run returned %+v; buffer %q",
				firedList, out.EndDetail, ref.Returns[0], out.FinalSnap.Line))
	}
	if out.Stuck && out.End == "RETURNED" {
		return violation(res, "STUCK_TASK", "C20.no-stuck-task", name("stuck-task"),
			fmt.Sprintf("disturbances %v: Readline returned but a goroutine of the library is left blocked for ever: %s %s", firedList, out.StuckMsg, out.EndDetail))
	}
	// (3) same line as the keystrokes alone determine
	if len(out.Returns) == 0 {
		return res
	}
	if out.Returns[0].Line != ref.Returns[0].Line || out.Returns[0].Err != ref.Returns[0].Err {
		return violation(res, "DIVERGENCE", "C20.line-as-undisturbed", name("line-differs"),
			fmt.Sprintf("disturbances %v: Readline returned (%q,%q); the same keys without disturbance return (%q,%q)",
				firedList, out.Returns[0].Line, out.Returns[0].Err, ref.Returns[0].Line, ref.Returns[0].Err))
	}
	// (4) screen consistent after the next redisplay: the last clean input wait after all disturbances
	if out.Extra["resized"] != true {
		var lastW *sim.Snap
		for i := range out.Waits {
			w := &out.Waits[i]
			if w.Kind == "main" && !w.Dirty && w.Partial == 0 && w.Local == "" {
				lastW = w
			}
		}
		allFired := fired >= len(sc.Plan.Disturb)
		if lastW != nil && allFired {
			// the same frame of the undisturbed run must be fine itself (else it is C04's finding)
			refW := waitAfter(ref, lastW.Tokens)
			// (a reference frame whose input area starts on the top row vouches for nothing: there the terminal
			// itself stops a cursor that is sent one row too high, which is how a display defect that has nothing
			// to do with the disturbance stays hidden until a Printf has pushed the prompt down)
			refAtTop := refW != nil && refW.Screen != nil && refW.AnchorAbsRow-refW.Screen.Scrolled <= 0
			if refAtTop {
				res.Counters["skipped:reference_frame_on_the_top_row"]++
			}
			if refW != nil && refW.Kind == "main" && refW.Line == lastW.Line && !refAtTop {
				if r0, _, _ := judgeFrame(refW); r0 == "ok" {
					rule, sig, msg := judgeFrame(lastW)
					if rule != "ok" && rule != "" && rule != "unjudged" {
						ssig := "screen"
						if fine {
							ssig = "screen:" + strings.TrimPrefix(sig, "layout:")
						}
						return violation(res, "LAYOUT", "C20.screen-consistent-after-redisplay", name(ssig),
							fmt.Sprintf("disturbances %v: at the input wait after %d keys the screen is inconsistent (the undisturbed run paints this frame correctly): %s", firedList, lastW.Tokens, msg))
					}
					res.Counters["frames_judged"]++
				}
			}
		}
	}
	// (6) signals only (no size change, nothing printed): a redisplay that was not needed leaves the screen as the
	// undisturbed run has it -- every row, not the input area alone -- at the next clean wait after a key
	if out.Extra["resized"] != true && fired >= len(sc.Plan.Disturb) && len(kinds) == 1 && strings.TrimSuffix(kinds[0], "*") == "sigwinch" && window != "unsupported-window|sigwinch" {
		maxTok := 0
		for _, k := range out.DisturbTok {
			if k > maxTok {
				maxTok = k
			}
		}
		var lastW *sim.Snap
		for i := range out.Waits {
			w := &out.Waits[i]
			if w.Kind == "main" && !w.Dirty && w.Partial == 0 && w.Tokens > maxTok {
				lastW = w
			}
		}
		if lastW != nil && lastW.Screen != nil && !out.Stuck {
			if refW := waitAfter(ref, lastW.Tokens); refW != nil && refW.Screen != nil && refW.Kind == "main" && refW.Line == lastW.Line && refW.Call == lastW.Call {
				a, b := refW.Screen.Dump(), lastW.Screen.Dump()
				// (rows are compared from the bottom of the screen: the disturbed run may have scrolled differently only
				// if something else is wrong, which the row contents show as well)
				same := len(a) == len(b) && refW.Screen.Scrolled == lastW.Screen.Scrolled
				for i := 0; same && i < len(a); i++ {
					same = a[i] == b[i]
				}
				if !same {
					cls := "screen:differs-from-the-undisturbed-run"
					if strings.Contains(lastW.Line, "\n") {
						// (the engine's row bookkeeping for buffers with embedded newlines -- C04's listed multi-line
						// classes -- as the watcher's redisplay meets it)
						cls += ":buffer-of-several-lines"
					} else if sc.Plan.TypeWithReport > 0 {
						// the user's next key processed while the watcher's redisplay waits for its cursor report: two
						// redisplays write at once (the class listed for Printf under rule 5, with a signal instead)
						cls += ":key-typed-during-the-redisplay"
					}
					return violation(res, "LAYOUT", "C20.signal-alone-leaves-the-screen-as-it-was", name(cls),
						fmt.Sprintf("disturbances %v (signals only, the terminal kept its size): at the input wait after %d keys the screen is %q; the undisturbed run has %q", firedList, lastW.Tokens, b, a))
				}
				res.Counters["frames_compared_with_the_undisturbed_run"]++
			}
		}
	}
	// (5) what the application printed, and the prompt under it, stand intact above the input area at the
	// first redisplay after it that a key has caused (one message only: a second one leaves a copy of the
	// input area between them, which nothing specifies)
	if out.Extra["resized"] != true && fired >= len(sc.Plan.Disturb) {
		var pd *wire.Disturb
		np := 0
		for i := range sc.Plan.Disturb {
			if d := &sc.Plan.Disturb[i]; d.Kind == "printf" || d.Kind == "printtransientf" {
				pd = d
				np++
			}
		}
		maxTok := 0
		for _, k := range out.DisturbTok {
			if k > maxTok {
				maxTok = k
			}
		}
		var lastW *sim.Snap
		for i := range out.Waits {
			w := &out.Waits[i]
			if w.Kind == "main" && !w.Dirty && w.Partial == 0 && w.Tokens > maxTok && w.Call <= 1 {
				lastW = w
			}
		}
		// (the same frame of the undisturbed run vouches for the script itself: a command that reprints a prompt of
		// several lines in the wrong place does so without any Printf, which is C04's matter, not this rule's)
		refOK := false
		if lastW != nil {
			if refW := waitAfter(ref, lastW.Tokens); refW != nil && refW.Screen != nil {
				// ... and a command that prints something of its own and starts the input area again below it
				// (print-last-kbd-macro, the dumps) legitimately comes between the message and the input area: in
				// the undisturbed run the input area must start on one and the same row from the frame in which the
				// event came to the judged one
				refAt := waitAfter(ref, maxTok)
				if sig, _ := judgeAbove(refW, promptUpper(sc.Env.Prompt)); sig == "" && refAt != nil && refAt.AnchorAbsRow == refW.AnchorAbsRow {
					refOK = true
				}
			}
			if !refOK {
				res.Counters["skipped:reference_frame_damaged_above"]++
			}
		}
		if np == 1 && lastW != nil && !out.Stuck && refOK {
			head := "async message 0"
			if pd.Kind == "printtransientf" {
				head = "transient message 0"
			}
			lines := strings.Split(head+pd.Msg, "\n")
			lines = append(lines, promptUpper(sc.Env.Prompt)...)
			if sig, msg := judgeAbove(lastW, lines); sig != "" {
				cls := "screen:above-the-input-area"
				if sc.Plan.TypeWithReport > 0 {
					// the user's next key is processed while the Printf caller's redisplay is still waiting for its
					// cursor report: two redisplays write to the terminal at once (the listed root cause of the
					// window "inside the processing of a key", reached here through the keyboard's timing)
					cls += ":key-typed-during-the-printf"
				}
				return violation(res, "LAYOUT", "C20.printed-message-and-prompt-intact", name(cls),
					fmt.Sprintf("disturbances %v: at the input wait after %d keys: %s", firedList, lastW.Tokens, msg))
			}
			res.Counters["frames_judged_above"]++
		}
	}
	if sc.Index%400 == 0 {
		res.Sample = sample(sc, map[string]any{"fired": firedList, "returned": out.Returns, "sites": sc.Plan.Sites})
	}
	return res
}
