package props

import (
	"sort"

	"github.com/reeflective/readline"
	"github.com/reeflective/readline/inputrc"

	"verifsim/wire"
)

// Catalog is the command alphabet, read from the tree under test: every
// registered command, the key sequences bound to it by default in each
// keymap, and the harness sequences (^\ + one character) given to the
// commands that have no default binding.
type Catalog struct {
	Commands []string
	IsCmd    map[string]bool
	// Binds[keymap][command] = typed byte sequences (meta converted to ESC prefix)
	Binds map[string]map[string][]string
	// Seqs[keymap] = all bound sequences of that keymap (typed form) -> action
	Seqs  map[string]map[string]string
	Extra []wire.BindSpec
	// ExtraSeq[command] = harness sequence
	ExtraSeq  map[string]string
	Names     map[string][]string // keymap -> sorted command names bound there
	Conflicts int
}

// ConvertMeta is the typed form of a bound sequence: meta characters
// become ESC-prefixed (what the dispatcher matches against).
func ConvertMeta(seq string) string {
	var out []rune
	for _, r := range []rune(seq) {
		if inputrc.IsMeta(r) {
			out = append(out, inputrc.Esc, inputrc.Demeta(r))
		} else {
			out = append(out, r)
		}
	}
	return string(out)
}

// MainKeymaps are the keymaps a session can have as main keymap.
var MainKeymaps = []string{"emacs", "vi-insert", "vi-command"}

const extraChars = "abcdefghijklmnopqrstuvwxyzABCDEFGHIJKLMNOPQRSTUVWXYZ0123456789"

// NewCatalog builds the catalog from a template shell.
func NewCatalog() *Catalog {
	sh := readline.NewShell()
	c := &Catalog{IsCmd: map[string]bool{}, Binds: map[string]map[string][]string{}, Seqs: map[string]map[string]string{},
		ExtraSeq: map[string]string{}, Names: map[string][]string{}}
	for name := range sh.Keymap.Commands() {
		c.Commands = append(c.Commands, name)
		c.IsCmd[name] = true
	}
	sort.Strings(c.Commands)
	bound := map[string]bool{}
	for km, binds := range sh.Config.Binds {
		c.Binds[km] = map[string][]string{}
		c.Seqs[km] = map[string]string{}
		// Two default binds can have the same typed form (a meta-control rune bound to
		// self-insert and the ESC-prefixed spelling of another command): which one the
		// dispatcher runs is not what the table says, so such sequences are not used
		// by generators that rely on knowing the command.
		conflict := map[string]bool{}
		typedAct := map[string]string{}
		for seq, b := range binds {
			typed := ConvertMeta(seq)
			if prev, ok := typedAct[typed]; ok && prev != b.Action {
				conflict[typed] = true
			}
			typedAct[typed] = b.Action
		}
		c.Conflicts += len(conflict)
		for seq, b := range binds {
			if b.Macro || !c.IsCmd[b.Action] {
				continue
			}
			typed := ConvertMeta(seq)
			if conflict[typed] {
				continue
			}
			c.Binds[km][b.Action] = append(c.Binds[km][b.Action], typed)
			c.Seqs[km][typed] = b.Action
			for _, m := range MainKeymaps {
				if km == m {
					bound[b.Action] = true
				}
			}
		}
		for cmd := range c.Binds[km] {
			sort.Strings(c.Binds[km][cmd])
			c.Names[km] = append(c.Names[km], cmd)
		}
		sort.Strings(c.Names[km])
	}
	// Every command gets a harness sequence (^\ + two characters) in each main
	// keymap where it has no usable default binding.
	_ = bound
	i := 0
	for _, name := range c.Commands {
		var missing []string
		for _, km := range MainKeymaps {
			if len(c.Binds[km][name]) == 0 {
				missing = append(missing, km)
			}
		}
		if len(missing) == 0 {
			continue
		}
		seq := "\x1c" + string(extraChars[i/len(extraChars)]) + string(extraChars[i%len(extraChars)])
		i++
		c.ExtraSeq[name] = seq
		for _, km := range missing {
			c.Extra = append(c.Extra, wire.BindSpec{Keymap: km, Seq: wire.Bytes(seq), Action: name})
			c.Binds[km][name] = append(c.Binds[km][name], seq)
			c.Names[km] = append(c.Names[km], name)
		}
	}
	for _, km := range MainKeymaps {
		sort.Strings(c.Names[km])
	}
	return c
}

// SeqFor returns a typed sequence running cmd in keymap km ("" if none).
func (c *Catalog) SeqFor(g *Gen, km, cmd string) string {
	seqs := c.Binds[km][cmd]
	if len(seqs) == 0 {
		return ""
	}
	if g == nil {
		return seqs[0]
	}
	return seqs[g.N(len(seqs))]
}

// ShortSeqFor returns the shortest (then smallest) typed sequence for cmd.
func (c *Catalog) ShortSeqFor(km, cmd string) string {
	seqs := c.Binds[km][cmd]
	best := ""
	for _, s := range seqs {
		if best == "" || len(s) < len(best) || (len(s) == len(best) && s < best) {
			best = s
		}
	}
	return best
}
