package props

import (
	"fmt"
	"os"
	"strings"
	"syscall"

	"github.com/reeflective/readline"

	"verifsim/sim"
	"verifsim/wire"
)

// ---------------------------------------------------------------- C10: file-backed history

func init() {
	register(&Family{ID: "C10", Gen: genC10, Exec: execC10, Budget: budget(2500, 150000)})
}

type c10Op struct {
	Op   string `json:"op"` // write | reopen | crash | crashall | short
	Line string `json:"line,omitempty"`
	// big lines are described, not stored: Repeat copies of Unit
	Unit   string `json:"unit,omitempty"`
	Repeat int    `json:"repeat,omitempty"`
	K      int    `json:"k,omitempty"`    // crash/short: offset inside the record, taken modulo its length+1
	Flip   int    `json:"flip,omitempty"` // crash: flip a byte of the torn tail at this offset (0 = no flip)
}

type c10X struct {
	Ops []c10Op `json:"ops"`
	// ViaShell: the file is (re)opened by a long-lived Shell under one and the same source name
	// (History.AddFromFile), and written through the source object the Shell has bound
	ViaShell bool `json:"via_shell,omitempty"`
	// HistSize: with ViaShell, the Shell's inputrc sets history-size to this (0 = not set). The variable limits
	// what a session records; a file that holds more (written by sessions without the limit) is still read in full.
	HistSize int `json:"hist_size,omitempty"`
}

func (g *Gen) histFileLine() c10Op {
	switch g.N(12) {
	case 0:
		return c10Op{Op: "write", Line: ""}
	case 1:
		return c10Op{Op: "write", Line: "  " + g.word(false, 6) + " \t"}
	case 2:
		return c10Op{Op: "write", Line: g.word(true, 8) + " \"quoted\" \\ back\\slash 'x'"}
	case 3:
		return c10Op{Op: "write", Line: g.word(false, 4) + "\n" + g.word(false, 4) + "\r\n\tindented"}
	case 4:
		return c10Op{Op: "write", Line: "ctl\x01\x02\x1b[31m\x7f" + g.word(false, 3)}
	case 5:
		return c10Op{Op: "write", Line: string([]rune{g.textRune(true), 0x2028, 0x2029, 0xFEFF, 0x10FFFF, '<', '>', '&'})}
	case 6:
		// around bufio.Scanner's default token limit
		n := 64*1024 + g.Range(-120, 120)
		if g.P(15) {
			n = g.Range(100000, 1100000)
		}
		return c10Op{Op: "write", Unit: "x", Repeat: n}
	case 7:
		return c10Op{Op: "write", Unit: g.word(true, 3) + " ", Repeat: g.Range(100, 30000)}
	default:
		return c10Op{Op: "write", Line: g.histLine(g.P(40))}
	}
}

func genC10(g *Gen, tier string, idx int) *wire.Scenario {
	sc := &wire.Scenario{Prop: "C10", Family: "histfile"}
	var ops []c10Op
	n := g.Range(1, 3)
	if g.P(20) {
		n = g.Range(4, 12)
	}
	for i := 0; i < n; i++ {
		switch {
		case g.P(55) || len(ops) == 0:
			op := g.histFileLine()
			if g.P(10) && len(ops) > 0 && ops[len(ops)-1].Op == "write" {
				op = ops[len(ops)-1] // consecutive duplicate
			}
			ops = append(ops, op)
		case g.P(30):
			ops = append(ops, c10Op{Op: "reopen"})
		case g.P(45):
			ops = append(ops, g.histFileLine(), c10Op{Op: "crashall", Flip: g.N(2)})
		case g.P(50):
			f := 0
			if g.P(40) {
				f = 1 + g.N(64)
			}
			ops = append(ops, g.histFileLine(), c10Op{Op: "crash", K: g.N(1 << 20), Flip: f})
		default:
			ops = append(ops, g.histFileLine(), c10Op{Op: "short", K: g.N(1 << 20)})
			ops[len(ops)-2].Op = "shortwrite"
		}
	}
	// always end with more writes and a reopen: durability after recovery
	for i := 0; i < g.Range(1, 2); i++ {
		ops = append(ops, c10Op{Op: "write", Line: g.histLine(false)})
	}
	ops = append(ops, c10Op{Op: "reopen"})
	xx := c10X{Ops: ops, ViaShell: g.P(30)}
	if xx.ViaShell && g.P(50) {
		xx.HistSize = g.Range(1, 4)
	}
	sc.X = mustJSON(xx)
	sc.Plan = wire.Plan{Policy: "canonical", Class: "S0"}
	return sc
}

func (o c10Op) text() string {
	if o.Repeat > 0 {
		return strings.Repeat(o.Unit, o.Repeat)
	}
	return o.Line
}

func short(s string) string {
	if len(s) > 60 {
		return fmt.Sprintf("%q…(%d bytes)", s[:40], len(s))
	}
	return fmt.Sprintf("%q", s)
}

func execC10(x *Ctx, sc *wire.Scenario) *wire.Result {
	res := okResult(sc)
	var xx c10X
	jsonInto(sc.X, &xx)
	path := x.P.Path("history.jsonl")
	os.Remove(path)
	os.WriteFile(path, nil, 0o600)
	defer readline.VerifSetFileFault(nil)

	var fail func(oracle, sig, msg string)
	failed := false
	fail = func(oracle, sig, msg string) {
		if !failed {
			violation(res, "DURABILITY", oracle, sig, msg)
			failed = true
		}
	}
	var sh *readline.Shell
	if xx.ViaShell {
		rc := ""
		if xx.HistSize > 0 {
			rc = fmt.Sprintf("set history-size %d\n", xx.HistSize)
		}
		os.WriteFile(x.P.Path("inputrc"), []byte(rc), 0o600)
		sh = readline.NewShell()
		sh.History.Delete()
	}
	open := func(what string) readline.History {
		if sh != nil {
			sh.History.AddFromFile("file", path)
			res.Counters["reopened_by_the_same_shell"]++
			h := sh.History.Current()
			if h == nil {
				fail("C10.reopen-never-fails", "reopen-error", what+": the Shell has no history source after AddFromFile")
			}
			return h
		}
		h, err := readline.NewHistoryFromFile(path)
		if err != nil {
			fail("C10.reopen-never-fails", "reopen-error", fmt.Sprintf("%s: reopening the history file failed: %v", what, err))
			return nil
		}
		return h
	}
	compare := func(h readline.History, want []string, optional *string, what string) (gotOptional bool) {
		n := h.Len()
		switch {
		case n == len(want):
		case optional != nil && n == len(want)+1:
			gotOptional = true
		default:
			first := ""
			for i := 0; i < n && i < len(want); i++ {
				if l, _ := h.GetLine(i); l != want[i] {
					first = fmt.Sprintf("; first difference at entry %d: got %s want %s", i, short(l), short(want[i]))
					break
				}
			}
			kind := "entries-lost"
			if n > len(want) {
				kind = "entries-extra"
			}
			fail("C10.reopened-equals-acknowledged", kind+":"+what,
				fmt.Sprintf("%s: reopened history has %d entries, %d acknowledged%s", what, n, len(want), first))
			return
		}
		for i := 0; i < len(want); i++ {
			l, err := h.GetLine(i)
			if err != nil || l != want[i] {
				fail("C10.reopened-equals-acknowledged", "entry-differs:"+what,
					fmt.Sprintf("%s: entry %d is %s (err %v), acknowledged %s", what, i, short(l), err, short(want[i])))
				return
			}
		}
		if gotOptional {
			l, _ := h.GetLine(len(want))
			if l != *optional {
				fail("C10.torn-tail-never-garbage", "torn-tail-garbage:"+what,
					fmt.Sprintf("%s: after a crash inside the last append the extra entry is %s, which is not the line being written (%s)", what, short(l), short(*optional)))
			}
		}
		return
	}

	sim.InBubble(x.T, func() {
		h := open("first open")
		if h == nil {
			return
		}
		var ack []string
		lastStart := int64(-1) // file size before the last write
		lastText := ""
		lastAcked := false
		size := func() int64 {
			st, err := os.Stat(path)
			if err != nil {
				return 0
			}
			return st.Size()
		}
		doWrite := func(text string) {
			lastStart = size()
			lastText = strings.TrimSpace(text)
			_, err := h.Write(text)
			lastAcked = err == nil && lastText != ""
			if lastAcked {
				ack = append(ack, lastText)
			}
			res.Counters["ops:write"]++
		}
		for oi, op := range xx.Ops {
			if failed || h == nil {
				return
			}
			x.beat()
			switch op.Op {
			case "write":
				doWrite(op.text())
			case "shortwrite":
				// the next op ("short") configures the fault; handled there
				next := c10Op{}
				if oi+1 < len(xx.Ops) {
					next = xx.Ops[oi+1]
				}
				fired := false
				readline.VerifSetFileFault(func(length int) (int, error) {
					fired = true
					// never the complete record: the cut is inside the JSON object
					m := length - 1
					if m < 1 {
						m = 1
					}
					return next.K % m, syscall.ENOSPC
				})
				lastStart = size()
				_, err := h.Write(op.text())
				readline.VerifSetFileFault(nil)
				lastText = strings.TrimSpace(op.text())
				lastAcked = false
				if fired {
					res.Counters["fault:short_write_enospc"]++
					if err == nil {
						fail("C10.short-write-reported", "short-write-unreported", "an append that wrote only part of the record and got ENOSPC returned a nil error")
					}
				} else if err == nil && lastText != "" {
					// blank line: nothing is written at all
					ack = append(ack, lastText)
					lastAcked = true
				}
			case "short":
			case "reopen":
				h = open("clean reopen")
				if h == nil {
					return
				}
				compare(h, ack, nil, "clean-reopen")
				res.Counters["ops:reopen"]++
			case "crash", "crashall":
				if lastStart < 0 || !lastAcked {
					continue
				}
				end := size()
				L := int(end - lastStart)
				if L <= 0 {
					continue
				}
				full, err := os.ReadFile(path)
				if err != nil {
					return
				}
				prev := ack[:len(ack)-1]
				var ks []int
				if op.Op == "crashall" && L <= 4096 && int(lastStart)*(L+1) <= 64<<20 {
					// every byte offset, while re-reading the file that many times stays cheap
					for k := 0; k <= L; k++ {
						ks = append(ks, k)
					}
					res.Counters["crashall_exhaustive_records"]++
				} else if op.Op == "crashall" {
					// sampled: boundaries, offsets of quotes/backslashes, and a spread
					ks = append(ks, 0, 1, 2, L-2, L-1, L, 65536-1, 65536, 65536+1)
					for i := 0; i < 48; i++ {
						ks = append(ks, (i*7919+op.K)%(L+1))
					}
				} else {
					ks = []int{op.K % (L + 1)}
				}
				keptLast := false
				for ci, k := range ks {
					if k < 0 || k > L {
						continue
					}
					if ci%16 == 0 {
						x.beat()
					}
					cut := append([]byte(nil), full[:int(lastStart)+k]...)
					if op.Flip > 0 && k > 0 {
						off := int(lastStart) + (op.Flip+ci)%k
						cut[off] ^= 0x20
						res.Counters["fault:byte_flip_in_torn_tail"]++
					}
					os.WriteFile(path, cut, 0o600)
					res.Counters["crash_points"]++
					res.Counters["fault:crash_truncate"]++
					what := "crash-reopen"
					h2 := open(fmt.Sprintf("crash at byte %d of %d of the last append", k, L))
					if h2 == nil {
						return
					}
					opt := &lastText
					if op.Flip > 0 && k > 0 {
						opt = nil // a flipped record may decode to other text or not at all: only the prefix is judged
						n := h2.Len()
						if n != len(prev) && n != len(prev)+1 {
							fail("C10.reopened-equals-acknowledged", "entries-lost:crash-flip",
								fmt.Sprintf("crash at byte %d with a flipped tail byte: %d entries, %d completed before", k, n, len(prev)))
							return
						}
						for i := range prev {
							if l, _ := h2.GetLine(i); l != prev[i] {
								fail("C10.reopened-equals-acknowledged", "entry-differs:crash-flip", fmt.Sprintf("entry %d is %s, want %s", i, short(l), short(prev[i])))
								return
							}
						}
						keptLast = n == len(prev)+1
					} else {
						keptLast = compare(h2, prev, opt, what)
					}
					if failed {
						res.Msg = fmt.Sprintf("crash at byte %d of %d of the last append (%s): %s", k, L, short(lastText), res.Msg)
						return
					}
					// recovery: a new acknowledged write must be durable, after the earlier ones
					if op.Op == "crashall" || ci == len(ks)-1 {
						probe := fmt.Sprintf("after-crash-%d", k)
						_, err := h2.Write(probe)
						if err != nil {
							fail("C10.durable-after-recovery", "write-after-crash-fails", fmt.Sprintf("write after crash at byte %d failed: %v", k, err))
							return
						}
						h3 := open("reopen after post-crash write")
						if h3 == nil {
							return
						}
						n := h3.Len()
						last, _ := h3.GetLine(n - 1)
						if n == 0 || last != probe {
							fail("C10.durable-after-recovery", "post-crash-write-lost",
								fmt.Sprintf("crash at byte %d of %d of the last append left a torn tail; the next acknowledged write %q is not in the reopened history (last entry %s, %d entries)", k, L, probe, short(last), n))
							return
						}
						for i := range prev {
							if l, _ := h3.GetLine(i); l != prev[i] {
								fail("C10.durable-after-recovery", "earlier-entry-lost-after-recovery", fmt.Sprintf("entry %d changed after recovery write", i))
								return
							}
						}
						h = h3
						if ci == len(ks)-1 {
							nn := h3.Len()
							ack = ack[:0]
							for i := 0; i < nn; i++ {
								l, _ := h3.GetLine(i)
								ack = append(ack, l)
							}
						}
					}
				}
				_ = keptLast
				lastStart = -1
			}
		}
	})
	res.Sessions = 1
	res.Steps = len(xx.Ops)
	res.Nontrivial = res.Counters["crash_points"] > 0 || res.Counters["ops:reopen"] > 0
	kinds := ""
	for _, op := range xx.Ops {
		kinds += op.Op[:1]
		if op.Repeat > 60000 {
			kinds += "L"
		}
	}
	res.SigHash = fmt.Sprintf("%016x", hash2(kinds, uint64(res.Counters["crash_points"])))
	if sc.Index%400 == 0 && !failed {
		var ops []string
		for _, op := range xx.Ops {
			ops = append(ops, op.Op+" "+short(op.text()))
		}
		res.Sample = map[string]any{"index": sc.Index, "ops": ops, "crash_points": res.Counters["crash_points"]}
	}
	return res
}
