package props

import (
	"fmt"
	"strings"

	"verifsim/sim"
	"verifsim/wire"
)

// ---------------------------------------------------------------- C14: completion locality

func init() {
	register(&Family{ID: "C14", Gen: genC14, Exec: execC14, Budget: budget(3000, 300000)})
	register(&Family{ID: "C15", Gen: genC15, Exec: execC15, Budget: budget(2000, 200000)})
}

type c14X struct {
	B     string `json:"b"`
	C     int    `json:"c"`              // cursor (rune index)
	Setup int    `json:"setup"`          // tokens that build B and place the cursor
	Warm  int    `json:"warm,omitempty"` // tokens of an earlier Readline call of the same shell in which a candidate was selected and accepted
	Abort int    `json:"abort"`          // token index of the C-c (or -1)
	Probe int    `json:"probe"`          // token index of the character typed after the abort (or -1)
}

func genC14(g *Gen, tier string, idx int) *wire.Scenario {
	mode := Pick(g, []string{"emacs", "emacs", "vi"})
	sc := &wire.Scenario{Prop: "C14", Family: "complete"}
	env := wire.Env{Mode: mode, Prompt: "> ", W: Pick(g, []int{30, 80, 160}), H: g.Range(10, 40), NoDefaultHistory: true}
	uni := g.P(20)
	km := "emacs"
	if mode == "vi" {
		km = "vi-insert"
	}
	// the word being completed and its neighbours
	stem := g.word(false, 3)
	stem = strings.Map(func(r rune) rune {
		if strings.ContainsRune(" \\\"'`$()[]{}<>|&;*?!#~=%^:@,\t/.-+_", r) {
			return 'k'
		}
		return r
	}, stem)
	if uni {
		stem = Pick(g, []string{"wö", "日本", "é", "ünï"})
	}
	var words []string
	nw := g.Range(0, 3)
	for i := 0; i < nw; i++ {
		words = append(words, strings.Map(func(r rune) rune {
			if strings.ContainsRune("\\\"'`\t", r) {
				return 'w'
			}
			return r
		}, g.word(false, 5)))
	}
	at := g.N(nw + 1)
	typedPrefix := stem[:0]
	switch g.N(4) {
	case 0: // empty word
	case 1:
		typedPrefix = stem
	default:
		rs := []rune(stem)
		typedPrefix = string(rs[:g.Range(1, len(rs))])
	}
	wordSuffix := ""
	if g.P(25) {
		wordSuffix = g.word(false, 2) // cursor in the middle of a word
		wordSuffix = strings.Map(func(r rune) rune {
			if strings.ContainsRune(" \\\"'`\t", r) {
				return 'm'
			}
			return r
		}, wordSuffix)
	}
	var left, right []string
	left = append(left, words[:at]...)
	right = append(right, words[at:]...)
	B := strings.Join(left, " ")
	if len(left) > 0 {
		B += " "
	}
	c := len([]rune(B)) + len([]rune(typedPrefix))
	B += typedPrefix + wordSuffix
	if len(right) > 0 {
		B += " " + strings.Join(right, " ")
	}
	// candidates
	spec := &wire.CompSpec{PrefixOnly: true}
	nc := g.Range(1, 12)
	if g.P(15) {
		nc = 1 // unique match: automatic acceptance
	}
	seen := map[string]bool{}
	described := g.P(35)
	for len(spec.Cands) < nc {
		v := stem + strings.Map(func(r rune) rune {
			if strings.ContainsRune(" \\\"'`$()[]{}<>|&;*?!#~=%^:@,\t", r) {
				return 'c'
			}
			return r
		}, g.word(false, 5))
		if g.P(10) && !uni {
			v = strings.ToUpper(v[:1]) + v[1:]
		}
		if seen[v] {
			continue
		}
		seen[v] = true
		cd := wire.Cand{Value: v}
		if described {
			cd.Desc = "about " + g.word(false, 3)
		}
		if g.P(20) {
			cd.Tag = "group"
		}
		spec.Cands = append(spec.Cands, cd)
	}
	if typedPrefix != "" && !seen[typedPrefix] && g.P(25) {
		// the word typed so far is itself a candidate (others extend it)
		spec.Cands = append(spec.Cands, wire.Cand{Value: typedPrefix})
		seen[typedPrefix] = true
	} else if typedPrefix != "" && !uni && g.P(15) {
		// ... or differs from one by case only
		v := strings.ToUpper(typedPrefix[:1]) + typedPrefix[1:]
		if !seen[v] {
			spec.Cands = append(spec.Cands, wire.Cand{Value: v})
			seen[v] = true
		}
	}
	if g.P(15) {
		spec.NoSpace = "/"
	}
	env.Comp = spec
	if g.P(20) {
		env.Inputrc = append(env.Inputrc, "set completion-ignore-case on")
		if !uni && g.P(60) {
			// candidates in the cases applications offer them
			for i := range spec.Cands {
				if v := spec.Cands[i].Value; g.P(50) && len(v) > 0 {
					nv := strings.ToUpper(v[:1]) + v[1:]
					if g.P(30) {
						nv = strings.ToUpper(v)
					}
					if !seen[nv] {
						delete(seen, v)
						seen[nv] = true
						spec.Cands[i].Value = nv
					}
				}
			}
		}
	}
	if g.P(20) {
		env.Inputrc = append(env.Inputrc, "set menu-complete-display-prefix on")
	}
	env.Binds = g.Cat.Extra
	x := c14X{B: B, C: c, Abort: -1, Probe: -1}
	if g.P(25) && !uni {
		// the shell has completed something before: an earlier Readline call selects a candidate in the menu and accepts the line
		for _, r := range []rune(stem)[:1] {
			sc.Script = append(sc.Script, tok(string(r), "self-insert"))
		}
		sc.Script = append(sc.Script, tok(g.Cat.ShortSeqFor(km, "menu-complete"), "menu-complete"))
		if g.P(50) {
			sc.Script = append(sc.Script, tok("\t", "menu-key"))
		}
		sc.Script = append(sc.Script, tok("\r", "accept-line"))
		x.Warm = len(sc.Script)
	}
	listedBefore := false
	if uni {
		env.History = []wire.HistSrc{{Kind: "memory", Name: "h0", Entries: []string{B}}}
		sc.Script = append(sc.Script, tok(g.Cat.ShortSeqFor(km, "previous-history"), "previous-history"))
	} else if lister := g.Cat.ShortSeqFor(km, Pick(g, []string{"possible-completions", "possible-completions", "menu-complete"})); typedPrefix != "" && lister != "" && g.P(20) {
		// the candidates were listed (or the menu opened) one character earlier, and the user typed on:
		// the completion under test must be of the word as it is now
		rb := []rune(B)
		for _, r := range append(append([]rune{}, rb[:c-1]...), rb[c:]...) {
			sc.Script = append(sc.Script, tok(string(r), "self-insert"))
		}
		for i := len(rb) - 1; i > c-1; i-- {
			sc.Script = append(sc.Script, tok(g.Cat.ShortSeqFor(km, "backward-char"), "backward-char"))
		}
		sc.Script = append(sc.Script, tok(lister, "list-before"), tok(string(rb[c-1]), "self-insert"))
		listedBefore = true
	} else {
		for _, r := range B {
			sc.Script = append(sc.Script, tok(string(r), "self-insert"))
		}
	}
	for i := len([]rune(B)); i > c && !listedBefore; i-- {
		sc.Script = append(sc.Script, tok(g.Cat.ShortSeqFor(km, "backward-char"), "backward-char"))
	}
	x.Setup = len(sc.Script)
	// menu keys
	first := Pick(g, []string{"complete", "menu-complete", "menu-complete", "menu-complete-backward"})
	sc.Script = append(sc.Script, tok(g.Cat.ShortSeqFor(km, first), first))
	for i := 0; i < g.Range(0, 6); i++ {
		sc.Script = append(sc.Script, tok(Pick(g, []string{"\t", "\t", "\x1b[Z", "\x1b[B", "\x1b[A", "\x1b[C", "\x1b[D", "\x1b[1;5B", "\x1b[1;5A"}), "menu-key"))
	}
	switch g.N(4) {
	case 0:
		x.Abort = len(sc.Script)
		sc.Script = append(sc.Script, tok("\x03", "abort"))
		x.Probe = len(sc.Script)
		sc.Script = append(sc.Script, tok("Z", "self-insert"))
	}
	sc.Env = env
	sc.X = mustJSON(x)
	sc.Plan = wire.Plan{Policy: "canonical", Class: "S0"}
	if idx%6 == 5 {
		sc.Plan.Disturb = []wire.Disturb{{Kind: "resize", Task: "main", Site: "inputwait", Nth: x.Setup + 2, W: g.Range(20, 160), H: env.H}}
	}
	return sc
}

func execC14(x *Ctx, sc *wire.Scenario) *wire.Result {
	res := okResult(sc)
	var xx c14X
	jsonInto(sc.X, &xx)
	hooks := sim.Hooks{}
	warmCalls := 0
	if xx.Warm > 0 {
		warmCalls = 1
		hooks.Body = func(s *sim.Session, sh *readlineShell) {
			s.Readline(sh)
			s.Readline(sh)
		}
	}
	out := runSession(x, sc, sc.Plan, hooks, false)
	absorb(res, out)
	if out.End == "PANIC" || out.End == "DEADLOCK" || out.End == "LIVELOCK" {
		res.Counters["skipped:crash"]++
		return res
	}
	if len(out.Returns) < warmCalls {
		res.Counters["skipped:warm_up_call_did_not_return"]++
		return res
	}
	out.Returns = out.Returns[warmCalls:]
	b0 := waitAfter(out, xx.Setup)
	if b0 == nil || b0.Line != xx.B || b0.Pos != xx.C {
		res.Counters["skipped:setup_did_not_reach_state"]++
		return res
	}
	rs := []rune(xx.B)
	ws := xx.C
	for ws > 0 && rs[ws-1] != ' ' && rs[ws-1] != '\t' && rs[ws-1] != '\n' {
		ws--
	}
	pre, suf := string(rs[:ws]), string(rs[xx.C:])
	typed := string(rs[ws:xx.C])
	how := "menu"
	if len(sc.Env.Comp.Cands) == 1 {
		how = "unique-match"
	}
	ascii := how + ":ascii-prefix"
	for _, r := range typed {
		if r > 0x7f {
			ascii = how + ":non-ascii-prefix"
		}
	}
	if typed == "" {
		ascii = how + ":empty-prefix"
	}
	cands := map[string]bool{}
	for _, c := range sc.Env.Comp.Cands {
		cands[c.Value] = true
	}
	last := xx.Setup
	if xx.Abort >= 0 {
		last = xx.Abort
	} else {
		last = len(sc.Script)
	}
	// the completion under test ends when its candidate is accepted (the menu closes with the
	// candidate in the line) or when a key moves the cursor with no menu open: whatever follows
	// is another completion, of another word
	endedAt := -1
	for i := xx.Setup + 1; i <= last && i <= len(sc.Script); i++ {
		w := waitAfter(out, i)
		if w == nil || w.Kind != "main" {
			continue
		}
		if w.Local != "menu-select" && (w.Line != xx.B || w.Pos != xx.C) {
			endedAt = i
			break
		}
	}
	if len(out.Returns) > 0 {
		// Ctrl-C only has to keep the call alive when it interrupts an ACTIVE menu
		if before := waitAfter(out, xx.Abort); xx.Abort >= 0 && endedAt < 0 && before != nil && before.Local == "menu-select" && before.Line != xx.B && everInMenuSince(out, xx.Setup, xx.Abort) {
			return violation(res, "MISMATCH", "C14.interrupt-restores", "abort-in-active-menu-returns",
				fmt.Sprintf("Ctrl-C in an active menu (showing %q) made Readline return %+v", before.Line, out.Returns[0]))
		}
	}
	closed := false
	for i := xx.Setup + 1; i <= last && !closed; i++ {
		w := waitAfter(out, i)
		if w == nil || w.Kind != "main" {
			continue
		}
		line := w.Line
		if prev := waitAfter(out, i-1); line == xx.B && w.Local == "menu-select" && prev != nil && prev.Kind == "main" && prev.Local == "menu-select" &&
			prev.Line != xx.B && i-1 > xx.Setup && sc.Script[i-1].Cmd == "menu-key" && !cands[typed] {
			// a key of the open menu moves the selection: it does not take the inserted candidate out of the line
			return violation(res, "MISMATCH", "C14.word-becomes-candidate", "menu-key-removes-the-inserted-candidate:"+ascii,
				fmt.Sprintf("with the menu open and %q in the line, the menu key %q left the bare word again (buffer %q), menu still open", prev.Line, string(sc.Script[i-1].B), line))
		}
		if line == xx.B {
			if w.Local != "menu-select" && w.Pos != xx.C {
				break // the cursor was moved with no menu open: not this completion any more
			}
			continue // nothing inserted (menu shown only, or no match)
		}
		if w.Local != "menu-select" {
			// the candidate was accepted and the menu closed: this wait is still judged,
			// later keys start new completions on a different word
			closed = true
			// ... if a completion is what changed the line: the key was a completion command, or a
			// menu was open before it (a "menu key" typed with no menu open is an ordinary command)
			cmd := sc.Script[i-1].Cmd
			prev := waitAfter(out, i-1)
			if !(cmd == "complete" || cmd == "menu-complete" || cmd == "menu-complete-backward" || (prev != nil && prev.Local == "menu-select")) {
				break
			}
		}
		res.Nontrivial = true
		key := lastCmd(sc, i)
		if !strings.HasPrefix(line, pre) {
			return violation(res, "MISMATCH", "C14.text-before-word-unchanged", "prefix-text-changed:"+ascii,
				fmt.Sprintf("after %s the text before the completed word changed: buffer %q cursor %d became %q (word starts at %d)", key, xx.B, xx.C, line, ws))
		}
		if !strings.HasSuffix(line, suf) {
			return violation(res, "MISMATCH", "C14.text-after-cursor-unchanged", "suffix-text-changed:"+ascii,
				fmt.Sprintf("after %s the text after the cursor changed: buffer %q cursor %d became %q", key, xx.B, xx.C, line))
		}
		mid := strings.TrimSuffix(strings.TrimPrefix(line, pre), suf)
		v := strings.TrimSuffix(mid, " ")
		if !cands[v] && !cands[mid] {
			// a partially completed common prefix is also legitimate: it must extend what was typed
			// and be a prefix of some candidate
			okPartial := false
			for c := range cands {
				if strings.HasPrefix(c, v) && strings.HasPrefix(strings.ToLower(v), strings.ToLower(typed)) && len(v) >= len(typed) {
					okPartial = true
				}
			}
			if !okPartial {
				return violation(res, "MISMATCH", "C14.word-becomes-candidate", "word-not-a-candidate:"+ascii,
					fmt.Sprintf("after %s the completed word is %q, not one of the offered candidates; buffer %q cursor %d became %q", key, mid, xx.B, xx.C, line))
			}
		}
	}
	// (3) interrupt restores
	if xx.Abort >= 0 && !closed && (endedAt < 0 || endedAt > xx.Abort) {
		before := waitAfter(out, xx.Abort)
		after := waitAfter(out, xx.Abort+1)
		if before != nil && after != nil && before.Local == "menu-select" && before.Line != xx.B {
			res.Counters["checked:abort_in_active_menu"]++
			how := "ctrl-c"
			if string(sc.Script[xx.Abort].B) == "\x07" {
				how = "ctrl-g"
			}
			if after.Line != xx.B || after.Pos != xx.C {
				return violation(res, "MISMATCH", "C14.interrupt-restores", "abort-does-not-restore:"+how+":"+ascii,
					fmt.Sprintf("%s in an active menu: buffer %q cursor %d was showing %q; after the interrupt it is %q cursor %d", how, xx.B, xx.C, before.Line, after.Line, after.Pos))
			}
			p := waitAfter(out, xx.Probe+1)
			want := string(rs[:xx.C]) + "Z" + suf
			if p != nil && p.Main != "vi-command" && p.Line != want {
				return violation(res, "MISMATCH", "C14.interrupt-restores", "typing-after-abort:"+how+":"+ascii,
					fmt.Sprintf("after %s in an active menu the next typed character gives %q, expected %q", how, p.Line, want))
			}
		}
	}
	if sc.Index%400 == 0 {
		res.Sample = sample(sc, map[string]any{"buffer": xx.B, "cursor": xx.C, "candidates": len(cands)})
	}
	return res
}

// ---------------------------------------------------------------- C15: menu cycles

type c15X struct {
	Prefix string `json:"prefix"`
	Setup  int    `json:"setup"`
	Dir    string `json:"dir"`            // forward | backward | mixed
	Warm   int    `json:"warm,omitempty"` // tokens of an earlier Readline call of the same shell
}

func genC15(g *Gen, tier string, idx int) *wire.Scenario {
	mode := Pick(g, []string{"emacs", "emacs", "vi"})
	sc := &wire.Scenario{Prop: "C15", Family: "menu"}
	env := wire.Env{Mode: mode, Prompt: "> ", W: g.Range(20, 200), H: g.Range(5, 60), NoDefaultHistory: true}
	km := "emacs"
	if mode == "vi" {
		km = "vi-insert"
	}
	n := g.Range(1, 12)
	if g.P(25) {
		n = g.Range(13, 60)
	}
	spec := &wire.CompSpec{PrefixOnly: false}
	described := g.P(45)
	aliases := described && g.P(50)
	tags := []string{""}
	if g.P(30) {
		tags = []string{"first", "second", "third"}[:g.Range(2, 3)]
	} else if g.P(25) {
		// a tag the library displays as a list when the candidates are described
		tags = Pick(g, [][]string{{"commands"}, {"sub commands"}, {"commands", "flags"}})
	}
	if g.P(12) {
		spec.List = true // the completer asks for a list
	}
	interleaved := len(tags) > 1 && g.P(40)
	seen := map[string]bool{}
	x := c15X{Dir: Pick(g, []string{"forward", "forward", "backward", "mixed"})}
	if g.P(40) {
		x.Prefix = "p"
	}
	// values as applications offer them, not only lower-case words: upper case, underscores, dashes,
	// dots, a lone punctuation character, one-letter values, values that are prefixes of each other
	special := []string{"ERROR", "ERRNO", "Error", "_", "__", "_x", "x_", "-", "--", "--all", "-v", ".", "..", "~", "E", "WARN",
		"NULL", "a", "ab", "abc", "A", "0", "10", "x.y", "x/y", "x:y", "x=y", "@home", "%1", "+x", "é", "日本"}
	nspecial := 0
	if g.P(35) {
		nspecial = g.Range(1, 4)
	}
	for len(spec.Cands) < n {
		v := x.Prefix + fmt.Sprintf("%s%d", strings.Repeat(string("abcdefg"[g.N(7)]), g.Range(1, 4)), len(spec.Cands))
		if nspecial > 0 && g.P(50) {
			v = x.Prefix + Pick(g, special)
			nspecial--
		}
		if g.P(10) {
			v += strings.Repeat("w", g.Range(10, 40)) // long values
		}
		if seen[v] {
			continue
		}
		seen[v] = true
		c := wire.Cand{Value: v, Tag: tags[len(spec.Cands)*len(tags)/n]}
		if interleaved {
			c.Tag = Pick(g, tags) // a completer that does not return its values tag by tag
		}
		if described {
			c.Desc = fmt.Sprintf("description %d", len(spec.Cands))
			if aliases && len(spec.Cands) > 0 && g.P(40) && spec.Cands[len(spec.Cands)-1].Tag == c.Tag {
				c.Desc = spec.Cands[len(spec.Cands)-1].Desc
			}
		}
		spec.Cands = append(spec.Cands, c)
	}
	if x.Prefix != "" && g.P(20) {
		// the typed word is as long as one of the candidates and differs from it by case only
		// (case-insensitive matching): that candidate is part of the cycle like any other
		v := strings.ToUpper(x.Prefix)
		if !seen[v] {
			seen[v] = true
			spec.Cands = append(spec.Cands, wire.Cand{Value: v, Tag: spec.Cands[len(spec.Cands)-1].Tag})
			env.Inputrc = append(env.Inputrc, "set completion-ignore-case on")
		}
	}
	env.Comp = spec
	env.Binds = g.Cat.Extra
	sc.Env = env
	if g.P(15) {
		// the shell has completed something before: an earlier Readline call selects a candidate and accepts the line
		for _, r := range "cmd " {
			sc.Script = append(sc.Script, tok(string(r), "self-insert"))
		}
		sc.Script = append(sc.Script, tok(g.Cat.ShortSeqFor(km, "menu-complete"), "menu-complete"), tok("\r", "accept-line"))
		x.Warm = len(sc.Script)
	}
	for _, r := range "cmd " + x.Prefix {
		sc.Script = append(sc.Script, tok(string(r), "self-insert"))
	}
	x.Setup = len(sc.Script)
	steps := 2*n + 3
	fwd, bwd := tok("\t", "menu-complete"), tok("\x1b[Z", "menu-complete-backward")
	switch x.Dir {
	case "forward":
		sc.Script = append(sc.Script, tok(g.Cat.ShortSeqFor(km, "menu-complete"), "menu-complete"))
		for i := 1; i < steps; i++ {
			sc.Script = append(sc.Script, fwd)
		}
	case "backward":
		sc.Script = append(sc.Script, tok(g.Cat.ShortSeqFor(km, "menu-complete-backward"), "menu-complete-backward"))
		for i := 1; i < steps; i++ {
			sc.Script = append(sc.Script, bwd)
		}
	default:
		sc.Script = append(sc.Script, tok(g.Cat.ShortSeqFor(km, "menu-complete"), "menu-complete"))
		for i := 1; i < steps; i++ {
			if g.P(50) {
				sc.Script = append(sc.Script, fwd)
			} else {
				sc.Script = append(sc.Script, bwd)
			}
		}
	}
	sc.X = mustJSON(x)
	sc.Plan = wire.Plan{Policy: "canonical", Class: "S0"}
	if idx%6 == 5 {
		sc.Plan.Disturb = []wire.Disturb{{Kind: "resize", Task: "main", Site: "inputwait", Nth: x.Setup + 1 + g.N(n+1), W: g.Range(20, 200), H: g.Range(5, 60)}}
	}
	return sc
}

func execC15(x *Ctx, sc *wire.Scenario) *wire.Result {
	res := okResult(sc)
	var xx c15X
	jsonInto(sc.X, &xx)
	hooks := sim.Hooks{}
	warmCalls := 0
	if xx.Warm > 0 {
		warmCalls = 1
		hooks.Body = func(s *sim.Session, sh *readlineShell) {
			s.Readline(sh)
			s.Readline(sh)
		}
	}
	out := runSession(x, sc, sc.Plan, hooks, false)
	absorb(res, out)
	if out.End == "PANIC" || out.End == "DEADLOCK" || out.End == "LIVELOCK" {
		res.Counters["skipped:crash"]++
		return res
	}
	if len(out.Returns) != warmCalls {
		res.Counters["skipped:returned"]++
		return res
	}
	cands := map[string]bool{}
	var order []string
	for _, c := range sc.Env.Comp.Cands {
		cands[c.Value] = true
		order = append(order, c.Value)
	}
	n := len(order)
	var shown []string // "" = no candidate inserted at that wait
	var dirs []int
	for i := xx.Setup; i < len(sc.Script); i++ {
		w := waitAfter(out, i+1)
		if w == nil {
			return res
		}
		word := strings.TrimRight(strings.TrimPrefix(w.Line, "cmd "), " ")
		d := 1
		if sc.Script[i].Cmd == "menu-complete-backward" {
			d = -1
		}
		if !strings.HasPrefix(w.Line, "cmd ") || (!cands[word] && word != xx.Prefix) {
			return violation(res, "MISMATCH", "C15.inserted-word-is-a-candidate", "menu-word-not-a-candidate",
				fmt.Sprintf("after %d menu keys the line is %q: the inserted word is not one of the %d candidates", i-xx.Setup+1, w.Line, n))
		}
		if cands[word] {
			shown = append(shown, word)
			dirs = append(dirs, d)
		} else {
			res.Counters["unselected_stops"]++
		}
	}
	resized := out.Extra["resized"] == true
	shape := "plain"
	for i, c := range sc.Env.Comp.Cands {
		if c.Desc != "" {
			shape = "described"
		}
		if i > 0 && c.Desc != "" && c.Desc == sc.Env.Comp.Cands[i-1].Desc {
			shape = "aliased"
			break
		}
	}
	if len(sc.Env.Comp.Cands) > 0 && sc.Env.Comp.Cands[0].Tag != "" {
		shape += "+tags"
	}
	if len(shown) < n {
		return violation(res, "MISMATCH", "C15.every-candidate-visited", "menu-stuck:"+shape,
			fmt.Sprintf("%d menu keys inserted a candidate only %d times for %d candidates: %q", len(sc.Script)-xx.Setup, len(shown), n, shown))
	}
	res.Nontrivial = n > 1
	if xx.Dir == "mixed" {
		// position behaves like a counter mod N: a backward step after a forward step shows the previous value
		for i := 2; i < len(shown); i++ {
			if dirs[i] == -dirs[i-1] && shown[i] != shown[i-2] && !resized {
				return violation(res, "MISMATCH", "C15.direction-reversal", "menu-reversal:"+shape,
					fmt.Sprintf("cycling %v then reversing direction shows %q, expected the previously shown %q (sequence %q)", dirs[i-1], shown[i], shown[i-2], shown))
			}
		}
		return res
	}
	if resized {
		// after a resize only "every candidate still reachable within N further steps" is required
		got := map[string]bool{}
		for _, s := range shown {
			got[s] = true
		}
		if len(got) < n {
			return violation(res, "MISMATCH", "C15.every-candidate-visited", "menu-unreachable-after-resize:"+shape,
				fmt.Sprintf("after a resize mid-cycle only %d of %d candidates were reachable in %d steps", len(got), n, len(shown)))
		}
		return res
	}
	// windows of length N starting at the first selection are permutations of the candidate set
	for start := 0; start+n <= len(shown); start += n {
		win := map[string]int{}
		for _, s := range shown[start : start+n] {
			win[s]++
		}
		for _, v := range order {
			if win[v] != 1 {
				return violation(res, "MISMATCH", "C15.each-candidate-once-per-cycle", "menu-cycle-not-a-permutation:"+xx.Dir+":"+shape,
					fmt.Sprintf("%s cycling over %d candidates (terminal %dx%d): in steps %d..%d candidate %q was shown %d times; sequence %q",
						xx.Dir, n, sc.Env.W, sc.Env.H, start+1, start+n, v, win[v], shown))
			}
		}
	}
	if sc.Index%300 == 0 {
		res.Sample = sample(sc, map[string]any{"candidates": n, "dir": xx.Dir, "shown": shown})
	}
	return res
}

// everInMenuSince reports whether every wait after the first insertion and
// before token index `to` had the menu open (no candidate was accepted yet).
func everInMenuSince(out *sim.Outcome, from, to int) bool {
	inserted := false
	for i := from + 1; i <= to; i++ {
		w := waitAfter(out, i)
		if w == nil {
			continue
		}
		if w.Local == "menu-select" {
			inserted = true
		} else if inserted {
			return false
		}
	}
	return true
}
