package props

import (
	"fmt"
	"sort"
	"strings"

	"github.com/reeflective/readline"
	"github.com/reeflective/readline/inputrc"

	"verifsim/sim"
	"verifsim/wire"
)

// ---------------------------------------------------------------- C03: dispatch

func init() {
	register(&Family{ID: "C03", Gen: genC03, Exec: execC03, Budget: budget(3000, 300000)})
}

type c03Bind struct {
	Seq   wire.Bytes `json:"seq"`
	Probe int        `json:"probe"`           // -1 for a macro
	Macro wire.Bytes `json:"macro,omitempty"` // macro body (key bytes)
	Meta  bool       `json:"meta,omitempty"`  // installed in its meta-encoded spelling (\M-a for ESC a)
}

type c03X struct {
	Keymap string     `json:"keymap"` // emacs | vi-insert | vi-command | vi-opp | vi-visual | menu-select
	Table  []c03Bind  `json:"table"`
	Input  wire.Bytes `json:"input"`
	Enter  int        `json:"enter"`           // number of setup tokens entering the keymap
	Local  string     `json:"local,omitempty"` // local keymap that stays active while the input is typed ("" | vi-visual)
	Core   bool       `json:"core,omitempty"`  // prefix-free table: no bound sequence is a proper prefix of another
}

const c03Lead = "\x1c"

// c03EscLed are the generated sequences that start with ESC instead of the lead byte.
var c03EscLed = map[string]bool{"\x1b[9~": true, "\x1b[7;3~": true, "\x1bO9": true, "\x1b[9;9x": true}

func genC03(g *Gen, tier string, idx int) *wire.Scenario {
	sc := &wire.Scenario{Prop: "C03", Family: "dispatch"}
	x := c03X{Keymap: Pick(g, []string{"emacs", "emacs", "vi-insert", "vi-command", "vi-command"})}
	// Half of the scenarios use prefix-free tables (the pinned tree dispatches those correctly: a
	// violation there is new and named apart), and a third of these type the input while the
	// vi visual keymap is active: sequences it does not bind fall through to the main keymap.
	x.Core = idx%2 == 0
	if x.Core && g.P(35) && x.Keymap != "vi-command" {
		x.Keymap, x.Local = "vi-command", "vi-visual"
	}
	mode := "emacs"
	if x.Keymap != "emacs" {
		mode = "vi"
	}
	env := wire.Env{Mode: mode, Prompt: "> ", W: 80, H: 24, Probes: 10}
	if g.P(30) {
		env.Inputrc = append(env.Inputrc, "set convert-meta on")
	}
	// sequences: lead + 1..3 keys over a small alphabet, with forced prefix overlaps
	alpha := []string{"a", "b", ";", "\x01", "\x18", "\x1ba"}
	seen := map[string]bool{}
	var seqs []string
	nb := g.Range(1, 8)
	for len(seqs) < nb {
		var s string
		if len(seqs) > 0 && g.P(55) && !x.Core {
			s = seqs[g.N(len(seqs))] + Pick(g, alpha) // extend an existing one: prefix overlap
		} else {
			s = c03Lead
			for i := 0; i < g.Range(1, 3); i++ {
				s += Pick(g, alpha)
			}
		}
		overlap := false
		if x.Core {
			for _, t := range seqs {
				if strings.HasPrefix(s, t) || strings.HasPrefix(t, s) {
					overlap = true
				}
			}
		}
		if len(s) > 6 || seen[s] || overlap {
			if len(seen) > 40 {
				break
			}
			seen[s+"#"] = true
			continue
		}
		seen[s] = true
		seqs = append(seqs, s)
	}
	if x.Core && g.P(35) && x.Keymap != "vi-command" {
		// sequences that start with ESC, as function keys do (none of these is in the default tables):
		// cut after two or more of their bytes they are still a pending prefix, in every keymap
		for _, s := range []string{"\x1b[9~", "\x1b[7;3~", "\x1bO9", "\x1b[9;9x"} {
			if g.P(50) && len(seqs) < 9 {
				seqs = append(seqs, s)
			}
		}
	}
	for i, s := range seqs {
		b := c03Bind{Seq: wire.Bytes(s), Probe: i % 10}
		if strings.Contains(s, "\x1b") && g.P(40) {
			b.Meta = true
		}
		if g.P(15) && !x.Core {
			// a macro whose body is another bound sequence or plain keys
			b.Probe = -1
			if g.P(60) && len(seqs) > 1 {
				b.Macro = wire.Bytes(seqs[g.N(len(seqs))])
			} else {
				b.Macro = wire.Bytes(Pick(g, []string{"ab", ";", "a", c03Lead + "a"}))
			}
			if string(b.Macro) == s {
				b.Macro = wire.Bytes("a")
			}
		} else if x.Core && x.Keymap != "vi-command" && x.Local == "" && i == len(seqs)-1 && len(seqs) > 1 && g.P(30) {
			// one macro in a prefix-free table, its text plain characters that happen to spell the name of a
			// command (an inputrc slip: quotes around a function name): typing the sequence types the text
			b.Probe = -1
			b.Macro = wire.Bytes(Pick(g, []string{"verif-probe-0", "verif-probe-1", "kill-whole-line", "end-of-line", "undo", "zq"}))
			// (none of these texts begins with a key of the table's alphabet: keys typed in the same read as the
			// macro's sequence are queued in front of the macro's text -- a listed C05 finding -- and a text that
			// began with one of them would complete a bound sequence with them)
		}
		x.Table = append(x.Table, b)
	}
	// input: bound sequences, their prefixes, extensions and noise
	var in strings.Builder
	var parts []string // the pieces the input is made of (prefix-free batch): one token each under the cutting schedule
	neutral := []string{"b", ";"}
	if x.Keymap != "vi-command" {
		neutral = append(neutral, "a")
	}
	for in.Len() < 8 {
		if x.Core {
			// whole bound sequences and neutral keys only: the plainest claim of the statement
			switch {
			case g.P(65):
				part := Pick(g, seqs)
				in.WriteString(part)
				parts = append(parts, part)
			case g.P(40) && x.Keymap == "emacs":
				// a bound sequence broken off before its last key, by a neutral key (in the vi keymaps
				// the pinned tree loses commands typed after it, or takes an ESC of the next sequence
				// for the mode switch: left to the other batch)
				s := Pick(g, seqs)
				if strings.Contains(s, "\x1b") && x.Keymap != "emacs" {
					// a sequence broken off after its ESC leaves vi insert mode: another scenario
					in.WriteString("b")
					parts = append(parts, "b")
					continue
				}
				part := s[:g.Range(1, len(s)-1)] + "b"
				in.WriteString(part)
				parts = append(parts, part)
			default:
				in.WriteString("b")
				parts = append(parts, "b")
			}
			continue
		}
		switch g.N(6) {
		case 0, 1, 2:
			in.WriteString(Pick(g, seqs))
		case 3:
			s := Pick(g, seqs)
			in.WriteString(s[:g.Range(1, len(s))])
		case 4:
			in.WriteString(c03Lead + Pick(g, alpha))
		default:
			in.WriteString(Pick(g, neutral))
		}
	}
	x.Input = wire.Bytes(in.String())
	if len(x.Input) > 12 && !x.Core {
		x.Input = x.Input[:12]
	}
	// enter the keymap
	if x.Keymap == "vi-command" {
		sc.Script = append(sc.Script, tok("z", "self-insert"), tok("z", "self-insert"), tok("\x1b", "vi-movement-mode"))
	}
	if x.Local == "" && g.P(15) {
		// something went on before: a history search by a pattern that was given up (nothing of it is left)
		switch x.Keymap {
		case "vi-command":
			sc.Script = append(sc.Script, tok(Pick(g, []string{"/", "?"}), "vi-search"))
			if g.P(50) {
				sc.Script = append(sc.Script, tok("q", "search-char"))
			}
			sc.Script = append(sc.Script, tok("\x03", "abort-search"))
		case "emacs":
			if seq := g.Cat.ShortSeqFor("emacs", "non-incremental-reverse-search-history"); seq != "" {
				sc.Script = append(sc.Script, tok(seq, "non-incremental-reverse-search-history"))
				if g.P(50) {
					sc.Script = append(sc.Script, tok("q", "search-char"))
				}
				sc.Script = append(sc.Script, tok(Pick(g, []string{"\x07", "\x03"}), "abort-search"))
			}
		}
	}
	if x.Local == "vi-visual" {
		sc.Script = append(sc.Script, tok("v", "vi-visual-mode"))
	}
	x.Enter = len(sc.Script)
	for i, bs := 0, []byte(x.Input); i < len(bs); i++ {
		if bs[i] == 0x1b && x.Keymap != "emacs" && i+1 < len(bs) {
			// in the vi keymaps an ESC that ends a read is the escape key: it stays with the byte that follows it
			sc.Script = append(sc.Script, tok(string(bs[i:i+2]), "key"))
			i++
			continue
		}
		sc.Script = append(sc.Script, tok(string(bs[i:i+1]), "key"))
	}
	for _, b := range x.Table {
		bs := wire.BindSpec{Keymap: x.Keymap, Seq: b.Seq, Meta: b.Meta}
		if b.Probe >= 0 {
			bs.Action = fmt.Sprintf("verif-probe-%d", b.Probe)
		} else {
			bs.Action = inputrcEscape(string(b.Macro))
			bs.Macro = true
		}
		env.Binds = append(env.Binds, bs)
	}
	sc.Env = env
	sc.X = mustJSON(x)
	// schedules: one byte per read (every prefix observed), all at once, random cuts
	switch idx % 3 {
	case 0:
		sc.Plan = wire.Plan{Policy: "canonical", Class: "S0"}
	case 1:
		// all input bytes in one token
		sc.Script = append(sc.Script[:x.Enter], tok(string(x.Input), "keys"))
		sc.Plan = wire.Plan{Policy: "canonical", Class: "S0"}
	default:
		sc.Script = append(sc.Script[:x.Enter], tok(string(x.Input), "keys"))
		if x.Core && len(parts) > 0 && strings.Join(parts, "") == string(x.Input) {
			// one token per piece: the schedule then cuts inside each sequence (never directly after an ESC
			// in the vi keymaps), so that every proper prefix of two or more bytes is a read boundary somewhere
			sc.Script = sc.Script[:x.Enter]
			for _, p := range parts {
				sc.Script = append(sc.Script, tok(p, "keys"))
			}
		}
		sc.Plan = wire.Plan{Policy: "seeded", Class: "S1", Seed: g.Seed(), ViRule: x.Keymap != "emacs"}
	}
	return sc
}

// inputrcEscape writes key bytes in inputrc macro notation (only the
// characters the generator uses: printable ASCII, control keys, ESC).
func inputrcEscape(s string) string {
	var sb strings.Builder
	for _, c := range []byte(s) {
		switch {
		case c == 0x1b:
			sb.WriteString(`\e`)
		case c < 0x20:
			sb.WriteString(`\C-` + string(rune(c+0x60)))
		case c == '"' || c == '\\':
			sb.WriteString(`\` + string(rune(c)))
		default:
			sb.WriteByte(c)
		}
	}
	return sb.String()
}

// refState is one state of the nondeterministic reference matcher.
type refState struct {
	t   string // keys typed so far that are still pending
	rem string // longest bound proper prefix of t remembered so far ("" = none)
	q   string // keys queued for dispatch (macro bodies, re-dispatched keys)
}

type refTable struct {
	act  map[string]string // typed sequence -> action ("probe:N", "macro:<bytes>", "other")
	work int               // reference steps spent (bounded: cyclic macro tables explode)
}

func (rt *refTable) hasLonger(t string) bool {
	for s := range rt.act {
		if len(s) > len(t) && strings.HasPrefix(s, t) {
			return true
		}
	}
	return false
}

// step feeds one key; it returns the successor states with the probe
// invocations each of them emits. Where the statement is silent (what
// happens to the keys after a remembered shorter match, and to the key
// that broke a sequence) both "discard" and "re-dispatch" are successors.
func (rt *refTable) step(st refState, k byte, depth int) []refOut {
	rt.work++
	if rt.work > 200000 {
		return nil
	}
	t := st.t + string([]byte{k})
	act, bound := rt.act[t]
	longer := rt.hasLonger(t)
	switch {
	case bound && !longer:
		return rt.fire(act, refState{}, depth)
	case longer:
		ns := refState{t: t, rem: st.rem}
		if bound {
			ns.rem = t
		}
		return []refOut{{st: ns}}
	}
	// t matches nothing and prefixes nothing
	var outs []refOut
	if st.rem != "" {
		tail := t[len(st.rem):]
		for _, o := range rt.fire(rt.act[st.rem], refState{}, depth) {
			// discard the tail
			outs = append(outs, o)
			// or re-dispatch it
			outs = append(outs, rt.feed(o, tail, depth)...)
		}
		return outs
	}
	// nothing remembered: nothing fires. The broken keys are dropped, or all but the
	// first are dispatched again, or only the last one is.
	outs = append(outs, refOut{st: refState{}})
	if len(t) > 1 {
		outs = append(outs, rt.feed(refOut{st: refState{}}, t[1:], depth)...)
		outs = append(outs, rt.feed(refOut{st: refState{}}, t[len(t)-1:], depth)...)
	}
	return outs
}

type refOut struct {
	st   refState
	emit []int
}

func (rt *refTable) fire(act string, st refState, depth int) []refOut {
	switch {
	case strings.HasPrefix(act, "probe:"):
		var n int
		fmt.Sscanf(act, "probe:%d", &n)
		return []refOut{{st: st, emit: []int{n}}}
	case strings.HasPrefix(act, "macro:"):
		if depth > 3 {
			rt.work = 1 << 30 // macro recursion: not judged
			return nil
		}
		return rt.feed(refOut{st: st}, strings.TrimPrefix(act, "macro:"), depth+1)
	}
	return []refOut{{st: st}}
}

func (rt *refTable) feed(o refOut, keys string, depth int) []refOut {
	cur := []refOut{o}
	for i := 0; i < len(keys); i++ {
		var next []refOut
		for _, c := range cur {
			for _, n := range rt.step(c.st, keys[i], depth) {
				next = append(next, refOut{st: n.st, emit: append(append([]int(nil), c.emit...), n.emit...)})
			}
		}
		cur = dedupOuts(next)
		if len(cur) > 256 {
			cur = cur[:256]
		}
	}
	return cur
}

func dedupOuts(in []refOut) []refOut {
	seen := map[string]bool{}
	var out []refOut
	for _, o := range in {
		k := o.st.t + "\x00" + o.st.rem + "\x00" + fmt.Sprint(o.emit)
		if !seen[k] {
			seen[k] = true
			out = append(out, o)
		}
	}
	sort.Slice(out, func(i, j int) bool { return fmt.Sprint(out[i]) < fmt.Sprint(out[j]) })
	return out
}

func execC03(x *Ctx, sc *wire.Scenario) *wire.Result {
	res := okResult(sc)
	var xx c03X
	jsonInto(sc.X, &xx)
	var log []int
	var logAt []int // number of typed bytes consumed when the probe fired is not observable; record wait count
	var table map[string]inputrc2Bind
	hooks := sim.Hooks{Setup: func(s *sim.Session, sh *readline.Shell) {
		cmds := map[string]func(){}
		for i := 0; i < 10; i++ {
			n := i
			cmds[fmt.Sprintf("verif-probe-%d", i)] = func() { log = append(log, n); logAt = append(logAt, len(s.Out.Waits)) }
		}
		sh.Keymap.Register(cmds)
		// the live table of the keymap under test, as the dispatcher sees it
		table = map[string]inputrc2Bind{}
		for seq, b := range sh.Config.Binds[xx.Keymap] {
			table[ConvertMeta(seq)] = inputrc2Bind{b.Action, b.Macro}
		}
	}}
	// the installed binds and the table of the payload must describe the same thing
	// (a shrunk payload that no longer matches the environment is not a scenario of this family)
	nOwn := 0
	for _, bs := range sc.Env.Binds {
		if !(strings.HasPrefix(string(bs.Seq), c03Lead) || c03EscLed[string(bs.Seq)]) || bs.Keymap != xx.Keymap {
			continue
		}
		nOwn++
		found := false
		for _, b := range xx.Table {
			if string(b.Seq) == string(bs.Seq) && (b.Probe >= 0) == !bs.Macro && (b.Probe >= 0 || inputrcEscape(string(b.Macro)) == bs.Action) {
				found = true
			}
		}
		if !found {
			res.Counters["skipped:inconsistent_scenario"]++
			return res
		}
	}
	if nOwn != len(xx.Table) {
		res.Counters["skipped:inconsistent_scenario"]++
		return res
	}
	out := runSession(x, sc, sc.Plan, hooks, false)
	absorb(res, out)
	if out.End == "PANIC" || out.End == "DEADLOCK" || out.End == "LIVELOCK" {
		res.Counters["skipped:crash"]++
		return res
	}
	if len(out.Returns) > 0 {
		res.Counters["skipped:returned"]++
		return res
	}
	// keymap must still be the one under test at the end (a default command may have switched it)
	if out.FinalSnap == nil || out.FinalSnap.Main != xx.Keymap || out.FinalSnap.Local != xx.Local {
		if xx.Core && xx.Local == "" && out.FinalSnap != nil {
			// whole bound sequences and a neutral key only: nothing typed here switches the keymap
			km := xx.Keymap
			return violation(res, "MISMATCH", "C03.dispatch-matches-reference", "prefix-free:dispatch:keymap-switched:"+km,
				fmt.Sprintf("keymap %s, typed %q (whole bound sequences of the table and the neutral key b only): the keymap is %s/%s afterwards, a command bound to none of these sequences ran", xx.Keymap, string(xx.Input), out.FinalSnap.Main, out.FinalSnap.Local))
		}
		res.Counters["skipped:keymap_changed"]++
		return res
	}
	for _, w := range out.Waits {
		if w.Kind != "main" || (w.Tokens >= xx.Enter && (w.Main != xx.Keymap || w.Local != xx.Local)) {
			res.Counters["skipped:keymap_changed"]++
			return res
		}
	}
	rt := &refTable{act: map[string]string{}}
	for seq, b := range table {
		switch {
		case !b.macro && strings.HasPrefix(b.action, "verif-probe-"):
			var n int
			fmt.Sscanf(b.action, "verif-probe-%d", &n)
			rt.act[seq] = fmt.Sprintf("probe:%d", n)
		case b.macro:
			rt.act[seq] = "macro:" + inputrc.Unescape(b.action)
			for _, own := range xx.Table {
				if string(own.Seq) == seq && own.Probe < 0 {
					rt.act[seq] = "macro:" + string(own.Macro)
				}
			}
		default:
			rt.act[seq] = "other"
		}
	}
	// the generated table must be what is installed (typed form)
	want := rt.feed(refOut{}, string(xx.Input), 0)
	if rt.work > 200000 {
		res.Counters["skipped:reference_too_large_or_recursive_macro"]++
		return res
	}
	res.Nontrivial = true
	accepted := false
	for _, o := range want {
		if fmt.Sprint(o.emit) == fmt.Sprint(log) || (len(o.emit) == 0 && len(log) == 0) {
			accepted = true
			break
		}
	}
	if !accepted {
		var alts []string
		for i, o := range want {
			if i < 6 {
				alts = append(alts, fmt.Sprint(o.emit))
			}
		}
		var tbl []string
		for _, b := range xx.Table {
			if b.Probe >= 0 {
				tbl = append(tbl, fmt.Sprintf("%q->p%d", string(b.Seq), b.Probe))
			} else {
				tbl = append(tbl, fmt.Sprintf("%q->macro %q", string(b.Seq), string(b.Macro)))
			}
		}
		cls := "extra-or-wrong"
		if len(log) < minEmit(want) {
			cls = "missing"
		}
		macro := ""
		for _, b := range xx.Table {
			if b.Probe < 0 {
				macro = ":with-macro"
			}
		}
		batch := ""
		if xx.Core {
			batch = "prefix-free:"
		}
		km := xx.Keymap
		if xx.Local != "" {
			km += "+" + xx.Local
		}
		sig := batch + "dispatch:" + cls + macro + ":" + km
		if !xx.Core && (macro != "" || km != "emacs") {
			// Tables in which a bound sequence is a prefix of another, with partial and unbound
			// sequences typed: the dispatcher of the pinned tree fails them in the vi keymaps, and
			// with macro binds in every keymap, missing and extra commands alike (one defect family:
			// what is remembered and re-dispatched when a longer match is ruled out, and macro keys
			// queued behind the keys already read). Named by keymap there; overlapping tables
			// without macros in the emacs keymap, which the tree dispatches correctly, and the
			// prefix-free batch keep the detail.
			sig = "dispatch:overlapping-table" + macro + ":" + km
		}
		return violation(res, "MISMATCH", "C03.dispatch-matches-reference", sig,
			fmt.Sprintf("keymap %s, binds %v, typed %q: probes fired %v; the reference accepts %v", xx.Keymap, tbl, string(xx.Input), log, alts))
	}
	// no probe may fire while the keys typed so far are only a proper prefix (judged under one-byte-per-read)
	if sc.Index%400 == 0 {
		res.Sample = sample(sc, map[string]any{"keymap": xx.Keymap, "table": xx.Table, "input": xx.Input, "fired": log})
	}
	return res
}

type inputrc2Bind struct {
	action string
	macro  bool
}

func minEmit(outs []refOut) int {
	m := 1 << 30
	for _, o := range outs {
		if len(o.emit) < m {
			m = len(o.emit)
		}
	}
	if m == 1<<30 {
		return 0
	}
	return m
}
