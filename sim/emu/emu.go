// Package emu is a small VT100/xterm terminal model: a grid of cells, a
// cursor with xterm's pending-wrap semantics, scrolling with an absolute
// row counter, and exactly the control sequences the library emits.
// It is a model (trusted base), not code under test.
package emu

import (
	"fmt"
	"strings"
	"unicode/utf8"
)

// Cell is one screen cell. W is 1 or 2 for the leading cell of a glyph,
// 0 for the trailing half of a wide glyph; an empty S is a blank cell.
type Cell struct {
	S string
	W int
}

func (c Cell) Blank() bool { return c.S == "" || c.S == " " }

// Term is the terminal state.
type Term struct {
	W, H        int
	Rows        [][]Cell
	Row, Col    int
	Wrap        bool // pending wrap (cursor logically past the last column)
	Scrolled    int  // rows scrolled off the top so far
	Visible     bool
	CursorStyle string // last CSI Ps SP q parameter seen ("" = never)
	StyleSeqs   int
	Unknown     int      // unknown control sequences seen
	UnknownList []string // first few
	ONLCR       bool
	saved       [2]int
	// OnQuery is called when CSI 6n is processed, with the 1-based
	// row/col of the cursor at that moment.
	OnQuery func(row, col int)
	Queries int
	// parser state
	st   int
	par  []byte
	utf  []byte
	need int
	// bell etc.
	Bells int
	// bytes processed
	Bytes int
}

// New returns a terminal of the given size with the cursor at (row,0).
func New(w, h, startRow int) *Term {
	t := &Term{W: w, H: h, Visible: true, ONLCR: true}
	t.Rows = make([][]Cell, h)
	for i := range t.Rows {
		t.Rows[i] = make([]Cell, w)
	}
	if startRow >= h {
		startRow = h - 1
	}
	t.Row = startRow
	return t
}

// RuneWidth is the model's cell width of a rune: East-Asian wide = 2,
// combining marks = 0, everything else 1. Generators only use characters
// on which this table and the library's width function agree.
func RuneWidth(r rune) int {
	switch {
	case r >= 0x0300 && r <= 0x036F:
		return 0
	case r >= 0x1100 && r <= 0x115F,
		r >= 0x2E80 && r <= 0x303E,
		r >= 0x3041 && r <= 0x33FF,
		r >= 0x3400 && r <= 0x4DBF,
		r >= 0x4E00 && r <= 0x9FFF,
		r >= 0xA000 && r <= 0xA4CF,
		r >= 0xAC00 && r <= 0xD7A3,
		r >= 0xF900 && r <= 0xFAFF,
		r >= 0xFE30 && r <= 0xFE6F,
		r >= 0xFF00 && r <= 0xFF60,
		r >= 0xFFE0 && r <= 0xFFE6,
		r >= 0x20000 && r <= 0x3FFFD:
		return 2
	}
	return 1
}

const (
	stGround = iota
	stEsc
	stCSI
	stOSC
	stOSCEsc
	stCharset
)

// Write feeds output bytes to the terminal.
func (t *Term) Write(p []byte) {
	for _, b := range p {
		t.Bytes++
		t.feed(b)
	}
}

func (t *Term) feed(b byte) {
	switch t.st {
	case stGround:
		t.ground(b)
	case stEsc:
		t.esc(b)
	case stCSI:
		if b >= 0x40 && b <= 0x7e {
			t.csi(string(t.par), b)
			t.par = t.par[:0]
			t.st = stGround
		} else if b == 0x1b {
			t.unknown("CSI " + string(t.par) + " <ESC>")
			t.par = t.par[:0]
			t.st = stEsc
		} else if b < 0x20 {
			// C0 control inside CSI: executed, sequence continues.
			t.c0(b)
		} else {
			t.par = append(t.par, b)
			if len(t.par) > 64 {
				t.unknown("CSI too long")
				t.par = t.par[:0]
				t.st = stGround
			}
		}
	case stOSC:
		if b == 0x07 {
			t.st = stGround
		} else if b == 0x1b {
			t.st = stOSCEsc
		}
	case stOSCEsc:
		if b == '\\' {
			t.st = stGround
		} else {
			t.st = stOSC
		}
	case stCharset:
		t.st = stGround
	}
}

func (t *Term) ground(b byte) {
	if t.need > 0 {
		if b&0xC0 == 0x80 {
			t.utf = append(t.utf, b)
			t.need--
			if t.need == 0 {
				r, _ := utf8.DecodeRune(t.utf)
				t.utf = t.utf[:0]
				t.put(r)
			}
			return
		}
		// broken sequence: show replacement, reprocess byte
		t.utf = t.utf[:0]
		t.need = 0
		t.put(utf8.RuneError)
	}
	switch {
	case b == 0x1b:
		t.st = stEsc
	case b < 0x20 || b == 0x7f:
		t.c0(b)
	case b < 0x80:
		t.put(rune(b))
	case b&0xE0 == 0xC0:
		t.utf = append(t.utf[:0], b)
		t.need = 1
	case b&0xF0 == 0xE0:
		t.utf = append(t.utf[:0], b)
		t.need = 2
	case b&0xF8 == 0xF0:
		t.utf = append(t.utf[:0], b)
		t.need = 3
	default:
		t.put(utf8.RuneError)
	}
}

func (t *Term) c0(b byte) {
	switch b {
	case '\r':
		t.Col = 0
		t.Wrap = false
	case '\n', 0x0b, 0x0c:
		if t.ONLCR && b == '\n' {
			t.Col = 0
		}
		t.Wrap = false
		t.lineFeed()
	case '\b':
		t.Wrap = false
		if t.Col > 0 {
			t.Col--
		}
	case '\t':
		t.Wrap = false
		n := (t.Col/8 + 1) * 8
		if n > t.W-1 {
			n = t.W - 1
		}
		t.Col = n
	case 0x07:
		t.Bells++
	case 0x00, 0x7f:
	default:
		// other C0 controls are ignored by the terminal
	}
}

func (t *Term) lineFeed() {
	if t.Row == t.H-1 {
		t.scrollUp()
	} else {
		t.Row++
	}
}

func (t *Term) scrollUp() {
	copy(t.Rows, t.Rows[1:])
	t.Rows[t.H-1] = make([]Cell, t.W)
	t.Scrolled++
}

func (t *Term) esc(b byte) {
	t.st = stGround
	switch b {
	case '[':
		t.st = stCSI
		t.par = t.par[:0]
	case ']':
		t.st = stOSC
	case '7':
		t.saved = [2]int{t.Row, t.Col}
	case '8':
		t.Row, t.Col = t.saved[0], t.saved[1]
		t.Wrap = false
		t.clamp()
	case '(', ')', '*', '+':
		t.st = stCharset
	case 'M':
		if t.Row > 0 {
			t.Row--
		}
	case 'D':
		t.lineFeed()
	case 'E':
		t.Col = 0
		t.lineFeed()
	case '=', '>', 'c':
	case 0x1b:
		t.st = stEsc
	default:
		t.unknown(fmt.Sprintf("ESC %q", b))
	}
}

func (t *Term) unknown(s string) {
	t.Unknown++
	if len(t.UnknownList) < 8 {
		t.UnknownList = append(t.UnknownList, s)
	}
}

func params(par string, def int) []int {
	var out []int
	for _, f := range strings.Split(par, ";") {
		n := 0
		ok := false
		for _, c := range f {
			if c >= '0' && c <= '9' {
				n = n*10 + int(c-'0')
				ok = true
				if n > 100000 {
					n = 100000
				}
			}
		}
		if !ok {
			n = def
		}
		out = append(out, n)
	}
	return out
}

func (t *Term) csi(par string, fin byte) {
	private := strings.HasPrefix(par, "?")
	if private {
		par = par[1:]
	}
	inter := ""
	if n := len(par); n > 0 && par[n-1] >= 0x20 && par[n-1] <= 0x2f {
		inter = par[n-1:]
		par = par[:n-1]
	}
	switch {
	case inter == " " && fin == 'q' && !private:
		t.CursorStyle = par
		t.StyleSeqs++
		return
	case inter != "":
		t.unknown("CSI " + par + inter + string(fin))
		return
	case private:
		ps := params(par, 0)
		switch fin {
		case 'h', 'l':
			for _, p := range ps {
				if p == 25 {
					t.Visible = fin == 'h'
				}
				// other private modes (bracketed paste, etc.) are accepted silently
			}
		default:
			t.unknown("CSI ?" + par + string(fin))
		}
		return
	}
	move := func() int {
		n := params(par, 1)[0]
		if n == 0 {
			n = 1
		}
		return n
	}
	switch fin {
	case 'A':
		t.Wrap = false
		t.Row -= move()
		t.clamp()
	case 'B', 'e':
		t.Wrap = false
		t.Row += move()
		t.clamp()
	case 'C', 'a':
		t.Wrap = false
		t.Col += move()
		t.clamp()
	case 'D':
		t.Wrap = false
		t.Col -= move()
		t.clamp()
	case 'E':
		t.Wrap = false
		t.Row += move()
		t.Col = 0
		t.clamp()
	case 'F':
		t.Wrap = false
		t.Row -= move()
		t.Col = 0
		t.clamp()
	case 'G', '`':
		t.Wrap = false
		t.Col = move() - 1
		t.clamp()
	case 'd':
		t.Wrap = false
		t.Row = move() - 1
		t.clamp()
	case 'H', 'f':
		ps := params(par, 1)
		r, c := ps[0], 1
		if len(ps) > 1 {
			c = ps[1]
		}
		if r == 0 {
			r = 1
		}
		if c == 0 {
			c = 1
		}
		t.Wrap = false
		t.Row, t.Col = r-1, c-1
		t.clamp()
	case 'J':
		switch params(par, 0)[0] {
		case 0:
			t.eraseLine(t.Row, t.Col, t.W)
			for r := t.Row + 1; r < t.H; r++ {
				t.eraseLine(r, 0, t.W)
			}
		case 1:
			for r := 0; r < t.Row; r++ {
				t.eraseLine(r, 0, t.W)
			}
			t.eraseLine(t.Row, 0, t.Col+1)
		case 2, 3:
			for r := 0; r < t.H; r++ {
				t.eraseLine(r, 0, t.W)
			}
		}
	case 'K':
		switch params(par, 0)[0] {
		case 0:
			t.eraseLine(t.Row, t.Col, t.W)
		case 1:
			t.eraseLine(t.Row, 0, t.Col+1)
		case 2:
			t.eraseLine(t.Row, 0, t.W)
		}
	case 'm':
		// attributes are tracked by nobody: colours do not occupy cells
	case 'n':
		if params(par, 0)[0] == 6 {
			t.Queries++
			if t.OnQuery != nil {
				t.OnQuery(t.Row+1, t.Col+1)
			}
		}
	case 'h', 'l', 'r', 's', 'u', 't':
		if fin == 's' {
			t.saved = [2]int{t.Row, t.Col}
		} else if fin == 'u' {
			t.Row, t.Col = t.saved[0], t.saved[1]
			t.Wrap = false
			t.clamp()
		}
	default:
		t.unknown("CSI " + par + string(fin))
	}
}

func (t *Term) clamp() {
	if t.Row < 0 {
		t.Row = 0
	}
	if t.Row > t.H-1 {
		t.Row = t.H - 1
	}
	if t.Col < 0 {
		t.Col = 0
	}
	if t.Col > t.W-1 {
		t.Col = t.W - 1
	}
}

// eraseLine blanks cells [from,to) of a row, taking care of wide glyph halves.
func (t *Term) eraseLine(r, from, to int) {
	if r < 0 || r >= t.H {
		return
	}
	row := t.Rows[r]
	if to > t.W {
		to = t.W
	}
	if from < 0 {
		from = 0
	}
	if from < to && from > 0 && row[from].W == 0 && row[from].S == "" && row[from-1].W == 2 {
		row[from-1] = Cell{}
	}
	if to < t.W && to > 0 && row[to-1].W == 2 {
		row[to] = Cell{}
	}
	for c := from; c < to; c++ {
		row[c] = Cell{}
	}
}

func (t *Term) put(r rune) {
	w := RuneWidth(r)
	if w == 0 {
		// combining mark: attach to the glyph before the cursor
		c := t.Col
		if !t.Wrap {
			c--
		}
		for c >= 0 && t.Rows[t.Row][c].W == 0 && t.Rows[t.Row][c].S == "" {
			c--
		}
		if c >= 0 && t.Rows[t.Row][c].S != "" {
			t.Rows[t.Row][c].S += string(r)
		}
		return
	}
	if t.Wrap {
		t.Wrap = false
		t.Col = 0
		t.lineFeed()
	}
	if w == 2 && t.Col == t.W-1 {
		if t.W < 2 {
			return
		}
		// a wide glyph never straddles the margin: it wraps early
		t.eraseLine(t.Row, t.Col, t.W)
		t.Col = 0
		t.lineFeed()
	}
	row := t.Rows[t.Row]
	// overwriting halves of wide glyphs clears the other half
	if row[t.Col].W == 0 && row[t.Col].S == "" && t.Col > 0 && row[t.Col-1].W == 2 {
		row[t.Col-1] = Cell{}
	}
	if w == 1 && row[t.Col].W == 2 && t.Col+1 < t.W {
		row[t.Col+1] = Cell{}
	}
	if w == 2 && t.Col+2 < t.W && row[t.Col+1].W == 2 {
		row[t.Col+2] = Cell{}
	}
	row[t.Col] = Cell{S: string(r), W: w}
	if w == 2 {
		row[t.Col+1] = Cell{S: "", W: 0}
	}
	t.Col += w
	if t.Col >= t.W {
		t.Col = t.W - 1
		t.Wrap = true
	}
}

// Resize changes the terminal size. Content is kept top-left aligned
// (no reflow); rows are truncated or padded. When the height shrinks
// below the cursor row the top rows scroll off.
func (t *Term) Resize(w, h int) {
	if w < 1 {
		w = 1
	}
	if h < 1 {
		h = 1
	}
	for t.Row >= h {
		copy(t.Rows, t.Rows[1:])
		t.Rows = t.Rows[:len(t.Rows)-1]
		t.Scrolled++
		t.Row--
	}
	rows := make([][]Cell, h)
	for r := 0; r < h; r++ {
		rows[r] = make([]Cell, w)
		if r < len(t.Rows) {
			copy(rows[r], t.Rows[r])
			if w < len(t.Rows[r]) && w > 0 && rows[r][w-1].W == 2 {
				rows[r][w-1] = Cell{}
			}
		}
	}
	t.Rows = rows
	t.W, t.H = w, h
	t.Wrap = false
	t.clamp()
}

// RowText returns the text of a screen row with trailing blanks removed.
func (t *Term) RowText(r int) string {
	return strings.TrimRight(t.rowTextBlanks(r), " ")
}

func (t *Term) rowTextBlanks(r int) string {
	var sb strings.Builder
	row := t.Rows[r]
	for i := 0; i < len(row); i++ {
		c := row[i]
		switch {
		case c.S != "":
			sb.WriteString(c.S)
			if c.W == 2 {
				i++
			}
		default:
			sb.WriteByte(' ')
		}
	}
	return sb.String()
}

// Dump renders the screen for diagnostics.
func (t *Term) Dump() []string {
	out := make([]string, t.H)
	for r := 0; r < t.H; r++ {
		out[r] = t.RowText(r)
	}
	return out
}

// RowBlank reports whether a row has no visible glyph.
func (t *Term) RowBlank(r int) bool {
	for _, c := range t.Rows[r] {
		if !c.Blank() {
			return false
		}
	}
	return true
}

// CursorCol returns the column a user would see the cursor at: with a
// pending wrap the cursor is displayed on the last column.
func (t *Term) Cursor() (row, col int, pendingWrap bool) {
	return t.Row, t.Col, t.Wrap
}

// Clone returns a deep copy of the visible state (grid and cursor).
func (t *Term) Clone() *Term {
	c := *t
	c.Rows = make([][]Cell, len(t.Rows))
	for i := range t.Rows {
		c.Rows[i] = append([]Cell(nil), t.Rows[i]...)
	}
	c.OnQuery = nil
	c.par = nil
	c.utf = nil
	c.UnknownList = append([]string(nil), t.UnknownList...)
	return &c
}
