// Package worker is the simulation worker: a compiled test binary
// (testing/synctest needs a *testing.T) driven by the orchestrator over
// two pipes (fd 3: commands in, fd 4: results out), JSON lines.
package worker

import (
	"bufio"
	"encoding/json"
	"fmt"
	"os"
	"runtime/debug"
	"testing"
	"time"

	"verifsim/props"
	"verifsim/sim"
	"verifsim/wire"
)

func TestWorker(t *testing.T) {
	if os.Getenv("VERIF_WORKER") == "" {
		t.Skip("not started by the orchestrator")
	}
	in := os.NewFile(3, "cmd")
	outf := os.NewFile(4, "res")
	if crash := os.Getenv("VERIF_CRASH_FILE"); crash != "" {
		if f, err := os.OpenFile(crash, os.O_CREATE|os.O_WRONLY|os.O_TRUNC, 0o600); err == nil {
			debug.SetCrashOutput(f, debug.CrashOptions{})
		}
	}
	debug.SetMaxStack(64 << 20)
	p, err := sim.NewProc()
	if err != nil {
		fmt.Fprintln(os.NewFile(4, "res"), `{"err":"`+err.Error()+`"}`)
		t.Fatal(err)
	}
	defer p.Close()
	cat := props.NewCatalog()
	w := bufio.NewWriterSize(outf, 1<<16)
	send := func(m wire.Msg) {
		b, err := json.Marshal(m)
		if err != nil {
			b, _ = json.Marshal(wire.Msg{Err: "marshal: " + err.Error()})
		}
		w.Write(b)
		w.WriteByte('\n')
		w.Flush()
	}
	seenStates := map[string]bool{}
	rd := bufio.NewReaderSize(in, 1<<20)
	dec := json.NewDecoder(rd)
	stuck := 0
	for {
		var cmd wire.Cmd
		if err := dec.Decode(&cmd); err != nil {
			return
		}
		x := &props.Ctx{T: t, P: p, Cat: cat, Trace: cmd.Trace}
		x.Beat = func() { send(wire.Msg{Beat: true}) }
		switch cmd.Op {
		case "quit":
			return
		case "budget":
			fam := props.Registry[cmd.Prop]
			n := 0
			if fam != nil {
				n = fam.Budget(cmd.Tier)
			}
			send(wire.Msg{Result: &wire.Result{Prop: cmd.Prop, Steps: n, Verdict: "ok"}})
			send(wire.Msg{Done: true})
		case "scenario":
			fam := props.Registry[cmd.Prop]
			if fam == nil {
				send(wire.Msg{Err: "unknown property " + cmd.Prop})
				continue
			}
			g := props.NewGen(cat, cmd.Seed, cmd.Prop, cmd.From)
			sc := fam.Gen(g, cmd.Tier, cmd.From)
			sc.Prop, sc.Tier, sc.Seed, sc.Index = cmd.Prop, cmd.Tier, cmd.Seed, cmd.From
			send(wire.Msg{Result: &wire.Result{Prop: cmd.Prop, Index: cmd.From, Verdict: "ok", Scenario: sc}})
			send(wire.Msg{Done: true})
		case "gen":
			fam := props.Registry[cmd.Prop]
			if fam == nil {
				send(wire.Msg{Err: "unknown property " + cmd.Prop})
				continue
			}
			for i := cmd.From; i < cmd.To; i++ {
				g := props.NewGen(cat, cmd.Seed, cmd.Prop, i)
				sc := fam.Gen(g, cmd.Tier, i)
				sc.Prop, sc.Tier, sc.Seed, sc.Index = cmd.Prop, cmd.Tier, cmd.Seed, i
				idx := i
				send(wire.Msg{Start: &idx})
				res := exec(x, fam, sc)
				if res.Verdict != "ok" || (cmd.Sample && i == cmd.From) {
					res.Scenario = sc
				}
				if !(cmd.Sample && i == cmd.From) && res.Verdict == "ok" {
					res.Sample = nil
				} else if cmd.Sample && i == cmd.From && res.Sample == nil {
					res.Sample = props.SampleOf(sc, res)
				}
				// only report abstract states this worker has not reported yet
				var fresh []string
				for _, s := range res.States {
					if !seenStates[s] {
						seenStates[s] = true
						fresh = append(fresh, s)
					}
				}
				res.States = fresh
				if res.Counters["end:DEADLOCK"] > 0 || res.Counters["stuck"] > 0 {
					stuck++
				}
				send(wire.Msg{Result: res})
				if stuck > 200 {
					// leaked goroutines of dead-locked sessions: ask for a fresh process
					send(wire.Msg{Done: true, Err: "recycle"})
					return
				}
			}
			send(wire.Msg{Done: true})
		case "exec":
			sc := cmd.Scenario
			fam := props.Registry[sc.Prop]
			if fam == nil {
				send(wire.Msg{Err: "unknown property " + sc.Prop})
				continue
			}
			idx := sc.Index
			send(wire.Msg{Start: &idx})
			res := exec(x, fam, sc)
			res.Scenario = sc
			if cmd.Trace {
				res.Sample = x.Traces
			}
			send(wire.Msg{Result: res})
			send(wire.Msg{Done: true})
		}
	}
}

func exec(x *props.Ctx, fam *props.Family, sc *wire.Scenario) (res *wire.Result) {
	t0 := time.Now()
	defer func() {
		if r := recover(); r != nil {
			res = &wire.Result{Prop: sc.Prop, Index: sc.Index, Verdict: "error", Msg: fmt.Sprintf("harness panic: %v\n%s", r, debug.Stack())}
		}
		if res.Counters == nil {
			res.Counters = map[string]int{}
		}
		res.Counters["wall_us"] = int(time.Since(t0).Microseconds())
	}()
	return fam.Exec(x, sc)
}
