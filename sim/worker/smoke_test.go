package worker

import (
	"fmt"
	"testing"

	"verifsim/sim"
	"verifsim/wire"
)

func TestSmoke(t *testing.T) {
	p, err := sim.NewProc()
	if err != nil {
		t.Fatal(err)
	}
	defer p.Close()
	spec := &sim.Spec{
		Env:        wire.Env{W: 40, H: 10, Prompt: "> ", Mode: "emacs"},
		Script:     []wire.Token{{B: wire.Bytes("h")}, {B: wire.Bytes("i")}, {B: wire.Bytes("\x01")}, {B: wire.Bytes("X")}, {B: wire.Bytes("\r")}},
		Plan:       wire.Plan{Policy: "canonical", Class: "S0"},
		WantEvents: true, WantScreen: true,
	}
	out := sim.Run(t, p, spec)
	p.Logf("end=%s detail=%s steps=%d returns=%+v stuck=%v %s panic=%s", out.End, out.EndDetail, out.Steps, out.Returns, out.Stuck, out.StuckMsg, out.Panic)
	for _, e := range out.Events {
		p.Logf("  %s", e)
	}
	for _, w := range out.Waits {
		p.Logf("  wait %+v", fmt.Sprintf("%q pos=%d %s/%s screen=%q cur=%d,%d", w.Line, w.Pos, w.Main, w.Local, w.Screen.Dump()[:3], w.Screen.Row, w.Screen.Col))
	}
	p.Logf("final screen %q cursor %d,%d", out.Final.Dump(), out.Final.Row, out.Final.Col)
}
