#!/usr/bin/env python3
"""Regenerates /verif/MANIFEST.json and /verif/sim/meta.json from the table below."""
import json, subprocess

COMMON_ASSUME = [
    "the terminal model (sim/emu: VT100/xterm cell grid, pending-wrap semantics, ONLCR output processing) represents the terminals users have",
    "testing/synctest's quiescence guarantee: Wait() returns only when every bubbled goroutine is durably blocked or gone",
    "the hooked build (-tags verif) differs from the shipped one only by the add-only hooks listed in MANIFEST.hooks",
    "typed bytes reach the library through the core.Stdin seam, not through the pty: input-side tty line discipline is not modelled",
]
COMPONENTS = {
    "real": ["root package readline (Shell, all commands)", "inputrc", "internal/core", "internal/keymap", "internal/display", "internal/history (memory and file sources)",
             "internal/completion", "internal/macro", "internal/editor", "internal/ui", "internal/term (real ioctls on a real pty)"],
    "model": ["terminal emulator + scripted typist (sim/emu, sim/sim)", "tty input FIFO with seeded chunking/faults", "SIGWINCH delivery (channel handed over by a guarded hook)"],
    "stub": ["simulated history.Source with injectable Write/GetLine failures", "simulated inputrc file system (Config.ReadFileFunc)", "application callbacks (Completer, AcceptMultiline, prompts, probe commands, Printf callers)"],
}

# id: (built, level, technique, level text, note, rule, extra assumptions, design_ref)
P = {
 "C01": (True, "exploration", "deterministic simulation: seeded key scripts x seeded read chunking/type-ahead x injected EOF/EIO/EINTR/report faults; per-step deadlock/livelock/panic oracle",
         "Seeded exploration of complete Readline sessions inside a synctest bubble: every terminal read, its size and its faults are scheduler decisions, so 'parked in a terminal read' versus 'blocked internally' versus 'polling a dead terminal' is decided exactly at every step. Sampling, not proof.",
         "trusted: simulator scheduler and quiescence detection; step budget (1500 steps without input progress = livelock); CPU watchdog for loops that never reach a simulator point",
         "scenario = (swarm environment, key script by command name + raw bytes, schedule class S1/S2/S3, fault plan); distinct = distinct hash of the sequence of abstract editor states (main keymap, local keymap, buffer shape, cursor class, last command, read kind) at input waits; non-trivial = more than 6 scheduler steps", [], "§6 C01"),
 "C02": (True, "exploration", "deterministic simulation: typed text delivered under slow-typist, cut-at-waits (incl. mid-UTF-8, paste) and type-ahead schedules; identity oracle",
         "Each generated string is typed through the simulated tty under three schedule classes and the returned line is compared for equality, with the buffer checked against the typed prefix at every input wait.",
         "trusted: generator only types self-inserting printable runes; type-ahead (S2) failures are attributed to C05, not reported here",
         "scenario = (string over ASCII/Latin-1/BMP/astral classes, mode, meta variables, chunking seed); distinct = distinct abstract-state sequence hash; non-trivial = non-empty text", [], "§6 C02"),
 "C05": (True, "exploration", "deterministic simulation: one byte script replayed under a canonical and N seeded delivery schedules (cuts, report/type-ahead fusion); outcome equality",
         "Differential over schedules: the same bytes are delivered by a slow typist and by N seeded schedules that cut reads anywhere and fuse typed bytes with cursor-position reports; (line, err) or the final editor state must be identical.",
         "trusted: vi-mode admissibility rule (no cut and no fusion directly after a typed ESC), reports delivered atomically",
         "scenario = (key script, N schedule seeds); distinct = distinct abstract-state/interleaving hash; non-trivial = at least one read differed from the canonical delivery (partial read, fused report, typed bytes reaching a cursor-query read)", [], "§6 C05"),
 "C06": (True, "exploration", "deterministic simulation of edit sessions; invariants checked at every input wait, movement purity resolved from the live keymaps",
         "Cursor/selection/mark range invariants are checked at every input wait of seeded edit sessions; movement/copy commands are identified from the keymaps observed at the wait before the key and must leave the buffer text unchanged; the returned line must equal the buffer at acceptance.",
         "trusted: command resolution through the catalog of default binds; waits right after leaving incremental search and verbatim-insertion modes are not judged",
         "scenario = (swarm environment, buffer-building keys, edit script with movement probes and numeric arguments); distinct = distinct abstract-state sequence hash; non-trivial = more than 3 input waits", [], "§6 C06"),
 "C10": (True, "fault_enumeration", "crash-point enumeration on the real file source: every byte offset of the last append (records <= 4 KiB), sampled beyond, byte flips in the torn tail, short writes with ENOSPC; reference log oracle",
         "For each generated write sequence the last append is cut at EVERY byte offset (exhaustive per record up to 4 KiB, sampled offsets for larger ones), optionally with a flipped tail byte, the source is reopened from the durable bytes only, compared with the reference log of acknowledged writes, and written to again to check durability after recovery.",
         "trusted: crash model = prefix of the last append survives (single write(2) with O_APPEND); tmpfs as disk; short-write hook H5",
         "run = (write/reopen/crash/short-write op sequence); distinct = distinct (op-kind sequence, crash points) hash; non-trivial = at least one reopen or crash point; crash_points counts reopen cycles at distinct offsets", [], "§6 C10"),
 "C12": (True, "exploration", "seeded grammar-derived and damaged inputrc texts through faulty readers and a simulated include file system (cycles, missing files, read errors); totality oracle in a child process",
         "Seeded generation of well-formed programs damaged the way stored files get damaged (truncation, byte flips, junk, fragments), delivered through 1-byte/short/failing readers and include graphs with self-loops and cycles; the parser must return. Stack overflow and endless loops are caught because each worker is a separate process under a watchdog.",
         "trusted: watchdog (8 s without a result) and the 60000-file-read bound that identifies unbounded include recursion",
         "run = (text, include graph, reader faults, options, entry point); distinct = distinct hash of (entry, text); non-trivial = non-empty text", [], "§6 C12"),
}

NOT_YET = {k: "check not built yet in this session (planned, see DESIGN.md §6)" for k in
           ["C03","C04","C07","C08","C09","C11","C13","C14","C15","C16","C17","C18","C19","C20"]}

def main():
    commits = subprocess.run(["git","-C","/repo","log","--format=%h %s"],capture_output=True,text=True).stdout.splitlines()
    hooks = [c.split()[0] for c in commits if c.split(" ",1)[1].startswith("verif hooks")]
    checks = []
    meta = {"common": {"assumptions": COMMON_ASSUME, "components": COMPONENTS}}
    na = []
    for pid in sorted(set(P) | set(NOT_YET)):
        if pid in P and P[pid][0]:
            built, level, tech, text, note, rule, extra, ref = P[pid]
            checks.append({
                "property_id": pid,
                "quick_cmd": f"sim/bin/verifsim check {pid} --tier quick",
                "thorough_cmd": f"sim/bin/verifsim check {pid} --tier thorough",
                "evidence_file": f"evidence/{pid}.json",
                "replay_cmd_template": "sim/bin/verifsim replay {path}",
                "engine": "verifsim",
                "level_claimed": {"category": level, "text": text, "design_ref": "DESIGN.md " + ref},
                "level_note": note,
                "technique": tech,
            })
            meta[pid] = {"level": level, "rule": rule, "assumptions": extra}
        else:
            na.append({"property_id": pid, "reason": NOT_YET.get(pid, "not claimed")})
    man = {
        "version": 1,
        "setup_cmd": "cd sim && cp /repo/go.sum . && GOFLAGS=-mod=mod GOPROXY=off GOSUMDB=off GOTOOLCHAIN=local go1.26.8 build -o bin/verifsim ./cmd/verifsim && bin/verifsim build",
        "hooks": {
            "guard": "verif",
            "enable": "go build tag: the worker is built with `go1.26.8 test -c -tags verif` against /repo (replace directive in sim/go.mod)",
            "baseline_off_cmd": "cd /repo && go test -mod=mod -json -vet=off -count=1 -timeout 25m ./...",
            "source_commits": hooks,
            "add_only": True,
        },
        "engines": [{"name": "verifsim", "path": "sim/", "serves_properties": [c["property_id"] for c in checks],
                     "kind_free_text": "deterministic simulation with fault injection: synctest bubble + one-runner scheduler + VT100 emulator + tty FIFO + seeded faults (DESIGN.md §2)"}],
        "checks": checks,
        "not_applicable": na,
        "notes": "Exit status 2 = infrastructure trouble (build failure, worker failure), never a VIOLATION. Known findings are listed in known-findings.txt; replays of violations are written to replays/.",
    }
    json.dump(man, open("/verif/MANIFEST.json","w"), indent=1)
    json.dump(meta, open("/verif/sim/meta.json","w"), indent=1)

main()
