#!/usr/bin/env python3
"""Regenerates /verif/MANIFEST.json and /verif/sim/meta.json from the table below."""
import json, subprocess

COMMON_ASSUME = [
    "the terminal model (sim/emu: VT100/xterm cell grid, pending-wrap semantics, ONLCR output processing) represents the terminals users have",
    "testing/synctest's quiescence guarantee: Wait() returns only when every bubbled goroutine is durably blocked or gone",
    "the hooked build (-tags verif) differs from the shipped one only by the add-only hooks listed in MANIFEST.hooks",
    "typed bytes reach the library through the core.Stdin seam, not through the pty: input-side tty line discipline is not modelled",
]
COMPONENTS = {
    "real": ["root package readline (Shell, all commands)", "inputrc", "internal/core", "internal/keymap", "internal/display", "internal/history (memory and file sources)",
             "internal/completion", "internal/macro", "internal/editor", "internal/ui", "internal/term (real ioctls on a real pty)"],
    "model": ["terminal emulator + scripted typist (sim/emu, sim/sim)", "tty input FIFO with seeded chunking/faults", "SIGWINCH delivery (channel handed over by a guarded hook)"],
    "stub": ["simulated history.Source with injectable Write/GetLine failures", "simulated inputrc file system (Config.ReadFileFunc)", "application callbacks (Completer, AcceptMultiline, prompts, probe commands, Printf callers)"],
}

# id: (built, level, technique, level text, note, rule, extra assumptions, design_ref)
P = {
 "C01": (True, "exploration", "deterministic simulation: seeded key scripts x seeded read chunking/type-ahead x injected EOF/EIO/EINTR/report faults; per-step deadlock/livelock/panic oracle",
         "Seeded exploration of complete Readline sessions inside a synctest bubble: every terminal read, its size and its faults are scheduler decisions, so 'parked in a terminal read' versus 'blocked internally' versus 'polling a dead terminal' is decided exactly at every step. Sampling, not proof.",
         "trusted: simulator scheduler and quiescence detection; livelock = 1500 scheduler steps without input progress, where progress is the user's bytes being read (the main loop reading the answers to its own cursor queries is not); more than 2500 reads after end of input without returning = polling a dead terminal; CPU watchdog for loops that never reach a simulator point; known findings are named by the panicking frame / blocked tasks",
         "scenario = (swarm environment, key script by command name + raw bytes, schedule class S1/S2/S3, fault plan); distinct = distinct hash of the sequence of abstract editor states (main keymap, local keymap, buffer shape, cursor class, last command, read kind) at input waits; non-trivial = more than 6 scheduler steps", [], "§6 C01"),
 "C02": (True, "exploration", "deterministic simulation: typed text delivered under slow-typist, cut-at-waits (incl. mid-UTF-8, paste) and type-ahead schedules; identity oracle",
         "Each generated string is typed through the simulated tty under three schedule classes and the returned line is compared for equality, with the buffer checked against the typed prefix at every input wait. A separate family puts bytes into the pty's own input queue before the call (keys typed while the application was busy) and counts them (FIONREAD) at the first input wait and after the return: switching the terminal modes must not throw them away.",
         "trusted: generator only types self-inserting printable runes; type-ahead (S2) failures of plain ASCII text are violations here; for non-ASCII text they are attributed to C05 (a multi-byte character cut by the end of a read is a listed C05 finding)",
         "scenario = (string over ASCII/Latin-1/BMP/astral classes, mode, meta variables, chunking seed); distinct = distinct abstract-state sequence hash; non-trivial = non-empty text", [], "§6 C02"),
 "C05": (True, "exploration", "deterministic simulation: one byte script replayed under a canonical and N seeded delivery schedules (cuts, report/type-ahead fusion); outcome equality",
         "Differential over schedules: the same bytes are delivered by a slow typist and by N seeded schedules that cut reads anywhere and fuse typed bytes with cursor-position reports; (line, err) or the final editor state must be identical.",
         "trusted: vi-mode admissibility rule (no cut and no fusion directly after a typed ESC), reports delivered atomically; two batches: restricted core scripts (the pinned tree passes them: violations named in full) and the full alphabet (known findings named by schedule class)",
         "scenario = (key script, N schedule seeds); distinct = distinct abstract-state/interleaving hash; non-trivial = at least one read differed from the canonical delivery (partial read, fused report, typed bytes reaching a cursor-query read)", [], "§6 C05"),
 "C06": (True, "exploration", "deterministic simulation of edit sessions; invariants checked at every input wait, movement purity resolved from the live keymaps",
         "Cursor/selection/mark range invariants are checked at every input wait of seeded edit sessions; movement/copy commands are identified from the keymaps observed at the wait before the key and must leave the buffer text unchanged; the returned line must equal the buffer at acceptance.",
         "trusted: command resolution through the catalog of default binds; waits right after leaving incremental search and verbatim-insertion modes are not judged",
         "scenario = (swarm environment, buffer-building keys, edit script with movement probes and numeric arguments); distinct = distinct abstract-state sequence hash; non-trivial = more than 3 input waits", [], "§6 C06"),
 "C10": (True, "fault_enumeration", "crash-point enumeration on the real file source: every byte offset of the last append (records <= 4 KiB), sampled beyond, byte flips in the torn tail, short writes with ENOSPC; reference log oracle",
         "For each generated write sequence the last append is cut at EVERY byte offset (exhaustive per record up to 4 KiB, sampled offsets for larger ones), optionally with a flipped tail byte, the source is reopened from the durable bytes only, compared with the reference log of acknowledged writes, and written to again to check durability after recovery.",
         "trusted: crash model = prefix of the last append survives (single write(2) with O_APPEND); tmpfs as disk; short-write hook H5; the file is reopened through NewHistoryFromFile or, in 30 % of the runs, by one long-lived Shell under one source name (History.AddFromFile)",
         "run = (write/reopen/crash/short-write op sequence); distinct = distinct (op-kind sequence, crash points) hash; non-trivial = at least one reopen or crash point; crash_points counts reopen cycles at distinct offsets", [], "§6 C10"),
 "C12": (True, "exploration", "seeded grammar-derived and damaged inputrc texts through faulty readers and a simulated include file system (cycles, missing files, read errors); totality oracle in a child process",
         "Seeded generation of well-formed programs damaged the way stored files get damaged (truncation, byte flips, junk, fragments), delivered through 1-byte/short/failing readers and include graphs with self-loops and cycles; the parser must return. Stack overflow and endless loops are caught because each worker is a separate process under a watchdog.",
         "trusted: watchdog (8 s without a result) and the 60000-file-read bound that identifies unbounded include recursion",
         "run = (text, include graph, reader faults, options, entry point); distinct = distinct hash of (entry, text); non-trivial = non-empty text", [], "§6 C12"),
}


def _p(level, tech, text, note, rule, ref):
    return (True, level, tech, text, note, rule, [], ref)

P.update({
 "C03": _p("exploration", "deterministic simulation: generated bind tables + key strings delivered one byte per read / at once / cut at seeded points; nondeterministic executable reference matcher over the live table",
    "Probe commands bound through the public API record every dispatch; an executable reference matcher written from the statement (longest match, remembered shorter match, macros; both 'discard' and 're-dispatch' where the statement is silent) must accept the observed invocation log.",
    "trusted: the reference matcher (props/c03.go, ~120 lines); tables live under a lead byte the default tables do not use; sessions whose keymap changed are not judged; batches: prefix-free tables typed in main keymaps and inside the vi visual keymap (named in full), overlapping tables without macros in emacs (named in full), the rest named by keymap (known findings)",
    "scenario = (keymap, bind table with forced prefix overlaps and macros, input string, delivery schedule); distinct = distinct abstract-state sequence hash; non-trivial = the reference produced a judgement", "§6 C03"),
 "C04": _p("exploration", "deterministic simulation: VT100 cell-grid emulator fed with the library's output and answering its cursor queries; reference layout anchored at the cell the terminal itself reported",
    "At every input wait the emulator grid is compared with a reference layout of prompt+buffer (wrap at the width, wide glyphs never straddling the margin, continuation rows, no remnants) and the cursor cell; geometry, prompts, start row (scrolling) and previous frames are swarm parameters. With a prompt of several lines its upper lines must stand untouched directly above the input area at every judged frame; a family of two calls on one Shell with the terminal resized between them (no call active) checks that the second call lays out for the width the terminal has then.",
    "trusted: the terminal model incl. pending-wrap/erase-at-margin semantics of xterm; independent width table restricted to characters on which it agrees with the library's by construction; tabs judged by glyph order only",
    "scenario = (geometry, prompt shape, history lines of targeted shapes, paint/edit script); distinct = distinct abstract-state sequence hash; non-trivial = at least one frame judged; frames_judged/unjudged counted", "§6 C04"),
 "C07": _p("exploration", "deterministic simulation of undo/redo sessions; monitor over the recorded per-line snapshot history",
    "A monitor over the buffers shown at input waits checks that undo only yields earlier states of that line, that enough undos reach the initial content, that undo^n redo^n is the identity on text and that an edit after undo discards the redo branch.",
    "trusted: line identity tracked with the walk model (previous/next-history, beginning/end-of-history jumps) and, for the line-or-search arrow keys of vi insert mode, read off the buffer shown (the histories have distinct entries)",
    "scenario = (edit/undo/redo/history-walk script, emacs or vi); distinct = abstract-state sequence hash; non-trivial = at least one undo judged", "§6 C07"),
 "C08": _p("exploration", "deterministic simulation of accept/exit variants over 1-3 bound history sources (real memory, real file, simulated failing source) with injected Source.Write errors and an EOF fault; per-source reference model of the recording rule",
    "For each session the contents of every bound source are observed before and after each Readline return and compared with a reference model of the rule (exactly once, unless blank/duplicate/full/error/replay command); a source whose own Write failed may lack the entry, the others may not.",
    "trusted: reference rule (props/c08_c09.go); history-size 0 accepted as either 'unlimited' or 'keep nothing'",
    "scenario = (typed line, exit variant, sources with prior contents, history-size, second call); distinct = abstract-state sequence hash; non-trivial = at least one source bound", "§6 C08"),
 "C09": _p("exploration", "deterministic simulation of history walk/search sessions against a position model; sources compared before/after; simulated source with failing GetLine as fault configuration",
    "A position model (-1 = line being typed, 0..n-1 from newest) predicts the buffer after every walk command; after search commands the buffer must be the typed text or a stored entry matching the search text; sources must be unchanged; no command may panic or make Readline return.",
    "trusted: walk model; accepted search texts = text left of the cursor in the shown line or in the line being typed",
    "scenario = (history contents with duplicates/prefixes/multi-line, typed text, walk/search/isearch script); distinct = abstract-state sequence hash; non-trivial = non-empty history and more than 2 waits", "§6 C09"),
 "C11": _p("exploration", "deterministic simulation of every way out of Readline (accept variants, abort, EOF key, insert-comment, edit-and-execute failure, panic in a user command, EOF/EIO faults on main and cursor reads, resize before accept) on a real pty; tcgetattr before/after",
    "The pty is real: termios is set to a random cooked mode before the call and read back from the kernel after Readline returned or a panic propagated; the emulator gives the cursor row/column, cursor style and visibility at exit.",
    "trusted: terminal model for cursor position/style; reference layout of C04 for 'below the input'",
    "scenario = (buffer shape, exit path, termios, geometry); distinct = abstract-state sequence hash; every scenario is non-trivial", "§6 C11"),
 "C13": _p("exploration", "seeded well-formed inputrc programs (nested $if/$else, set keymap, set var, key-name and quoted binds, macros, $include) evaluated by the parser, by NewShell and by re-read-init-file in a live session, against an executable reference evaluator",
    "No schedule or fault is sampled here (weak fit, stated in DESIGN.md): programs from a grammar are evaluated by a ~60-line reference evaluator written from the statement and compared with Config.Binds/Vars after Parse (through a chunked reader), after NewShell and after re-read-init-file with the file changed under the running editor.",
    "trusted: reference evaluator and the table of key notations with their meaning (props/c13.go); a second reference encoding the known 'inner $if evaluated alone' defect is used only to name that finding",
    "run = (program, included files, mode/term/app, route); distinct = distinct hash of (program text, settings, route); non-trivial = more than 2 lines; nesting depth histogram in counters", "§6 C13"),
 "C14": _p("exploration", "deterministic simulation of completion sessions with generated completers; locality oracle on the buffer at every wait while the menu is open; Ctrl-C restore; resize while the menu is open as a separate configuration",
    "For generated (buffer, cursor, candidate set) triples the buffer at every wait with the menu active (and at the wait where a candidate is accepted) must be prefix + candidate + suffix; Ctrl-C in an active menu must restore buffer and cursor and keep the call alive.",
    "trusted: blank-delimited word rule computed by the harness; keys after the menu closed start new completions and are not judged",
    "scenario = (buffer, cursor, candidates, menu keys, optional abort/resize); distinct = abstract-state sequence hash; non-trivial = a candidate was inserted", "§6 C14"),
 "C15": _p("exploration", "deterministic simulation of menu-complete cycles (forward, backward, mixed, resize mid-cycle) over candidate sets of 1-60 values on terminals 20-200 x 5-60",
    "The word inserted after each of 2N+3 menu keys is read from the buffer; consecutive windows of N selections must be permutations of the candidate set; direction reversals must return to the previously shown value.",
    "trusted: locality of insertion (C14) to read the word",
    "scenario = (candidate set shape: plain/described/aliased/tags/long, geometry, direction); distinct = abstract-state sequence hash; non-trivial = more than one candidate", "§6 C15"),
 "C16": _p("exploration", "deterministic simulation of kill-then-yank sessions by command name; contiguous-run oracle on buffers before/after kill/yank and the kill register",
    "For every kill command by name (with numeric arguments, marks, multi-line and multi-byte buffers) the removed text must be one contiguous run equal to the kill buffer, and yank must insert exactly the last non-empty kill; a single kill followed by yank must restore the buffer.",
    "trusted: removed-run computation accepts every position whose removal gives the observed buffer",
    "scenario = (buffer, cursor, kill command(s), yank); distinct = abstract-state sequence hash; non-trivial = something was removed", "§6 C16"),
 "C17": _p("exploration", "paired deterministic sessions from identical states: [count] d <motion> versus [count] y <motion> (and visual variants)",
    "Two sessions share the setup keys; the text removed by delete must be one contiguous run, equal to the register content, equal to what yank of the same motion copied, and yank must leave the buffer unchanged.",
    "trusted: pairing by identical observed (buffer, cursor) after setup; otherwise not judged",
    "scenario = (buffer, cursor, motion or text object, count, visual flag); distinct = abstract-state sequence hash; every judged pair is non-trivial", "§6 C17"),
 "C18": _p("exploration", "paired deterministic sessions: keys K typed twice versus recorded once and replayed (emacs C-x ( ) e, vi q<r> @<r>), recording chunked at seeded points",
    "Final (buffer, cursor) of the two sessions must be equal; recording happens across seeded read cuts so that keys recorded across prefix waits and multi-key reads are covered.",
    "trusted: K must end in vi command mode for the vi variant (else q/@ are text), checked on the observed keymap",
    "scenario = (starting buffer, key script K, style, register); distinct = abstract-state sequence hash; non-trivial = non-empty K", "§6 C18"),
 "C19": _p("exploration", "exhaustive single-rune and seeded multi-rune Escape/Unescape round trips, all default bindings, and dump-functions/dump-variables/dump-macros/print-last-kbd-macro output captured from the simulated terminal and parsed back",
    "Weak fit (stated in DESIGN.md): the first sentence is a pure-function law checked exhaustively for runes 0x00-0xFF and all default binds; the dump commands only exist inside the live editor, so their raw terminal output is captured by the simulator between two input waits and re-parsed into a fresh Config.",
    "trusted: extraction of dump lines from the raw stream (CSI sequences stripped, lines starting with a quote or with 'set ')",
    "run = (rune sequence | configuration + dump command | recorded macro); distinct = distinct payload hash; every run is non-trivial; indexes 0..255 enumerate the single runes", "§6 C19"),
 "C20": _p("exploration", "deterministic simulation with injected SIGWINCH / resize / Printf / PrintTransientf disturbances pinned to the n-th occurrence of named scheduling points, one-runner scheduler choosing every interleaving from the seed; reference = undisturbed run",
    "The resize watcher and application Printf callers are real goroutines released one at a time at guarded yield points; each disturbance is injected when a named task reaches a named point (main loop top, during refresh, during the cursor query, at the report hand-off, while waiting, ...). Judged: no panic, no deadlock or stuck task, same (line, err) as the undisturbed run, consistent screen at the next clean input wait, and (one Printf/PrintTransientf, messages of one to three rows or running past the margin, prompts of one to three lines) the printed message and the upper prompt lines standing intact directly above the input area at the first redisplay a key causes, the undisturbed run vouching for the script itself. The quick tier includes a systematic sweep of single disturbances over (site x kind x occurrence).",
    "trusted: yield points are where interleaving matters (DESIGN.md §3); between two yield points a task runs alone; one event (resize or Printf, also with a key typed while its report is in flight) while Readline waits for input is named in full, everything beyond is named by the window in which it lands (known findings)",
    "scenario = (key script, disturbance plan, enabled yield-site subset, schedule seed); distinct = distinct interleaving/abstract-state hash; non-trivial = at least one disturbance fired", "§6 C20"),
})

NOT_YET = {}

def main():
    commits = subprocess.run(["git","-C","/repo","log","--format=%h %s"],capture_output=True,text=True).stdout.splitlines()
    hooks = [c.split()[0] for c in commits if c.split(" ",1)[1].startswith("verif hooks")]
    checks = []
    meta = {"common": {"assumptions": COMMON_ASSUME, "components": COMPONENTS}}
    na = []
    for pid in sorted(set(P) | set(NOT_YET)):
        if pid in P and P[pid][0]:
            built, level, tech, text, note, rule, extra, ref = P[pid]
            checks.append({
                "property_id": pid,
                "quick_cmd": f"sim/bin/verifsim check {pid} --tier quick",
                "thorough_cmd": f"sim/bin/verifsim check {pid} --tier thorough",
                "evidence_file": f"evidence/{pid}.json",
                "replay_cmd_template": "sim/bin/verifsim replay {path}",
                "engine": "verifsim",
                "level_claimed": {"category": level, "text": text, "design_ref": "DESIGN.md " + ref},
                "level_note": note,
                "technique": tech,
            })
            meta[pid] = {"level": level, "rule": rule, "assumptions": extra}
        else:
            na.append({"property_id": pid, "reason": NOT_YET.get(pid, "not claimed")})
    man = {
        "version": 1,
        "setup_cmd": "cd sim && cp /repo/go.sum . && GOFLAGS=-mod=mod GOPROXY=off GOSUMDB=off GOTOOLCHAIN=local go1.26.8 build -o bin/verifsim ./cmd/verifsim && bin/verifsim build",
        "hooks": {
            "guard": "verif",
            "enable": "go build tag: the worker is built with `go1.26.8 test -c -tags verif` against /repo (replace directive in sim/go.mod)",
            "baseline_off_cmd": "cd /repo && go test -mod=mod -json -vet=off -count=1 -timeout 25m ./...",
            "source_commits": hooks,
            "add_only": True,
        },
        "engines": [{"name": "verifsim", "path": "sim/", "serves_properties": [c["property_id"] for c in checks],
                     "kind_free_text": "deterministic simulation with fault injection: synctest bubble + one-runner scheduler + VT100 emulator + tty FIFO + seeded faults (DESIGN.md §2)"}],
        "checks": checks,
        "not_applicable": na,
        "notes": "Exit status 2 = infrastructure trouble (build failure, worker failure), never a VIOLATION. Known findings are listed in known-findings.txt; replays of violations are written to replays/.",
    }
    json.dump(man, open("/verif/MANIFEST.json","w"), indent=1)
    json.dump(meta, open("/verif/sim/meta.json","w"), indent=1)

main()
