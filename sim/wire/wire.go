// Package wire holds the plain-data types exchanged between the
// orchestrator and the simulation workers: scenarios (what to run),
// results (what happened) and replay files.
package wire

import (
	"encoding/json"
	"strconv"
)

// Bytes is a byte string that marshals to a readable, lossless
// Go-quoted ASCII form ("\x1b[A") instead of base64.
type Bytes []byte

func (b Bytes) MarshalJSON() ([]byte, error) {
	q := strconv.QuoteToASCII(string(b))
	return json.Marshal(q[1 : len(q)-1])
}

func (b *Bytes) UnmarshalJSON(data []byte) error {
	var s string
	if err := json.Unmarshal(data, &s); err != nil {
		return err
	}
	// The body never contains an unescaped double quote (QuoteToASCII escapes it).
	u, err := strconv.Unquote(`"` + s + `"`)
	if err != nil {
		return err
	}
	*b = Bytes(u)
	return nil
}

// Token is one key press of the scripted typist: raw bytes plus the
// command name the generator intended (informational).
type Token struct {
	B   Bytes  `json:"b"`
	Cmd string `json:"cmd,omitempty"`
}

// BindSpec is a binding installed with Shell.Config.Bind before the session.
type BindSpec struct {
	Keymap string `json:"keymap"`
	Seq    Bytes  `json:"seq"`
	Action string `json:"action"`
	Macro  bool   `json:"macro,omitempty"`
	// Meta: the sequence is installed in its meta-encoded spelling (every ESC x pair of Seq becomes the one
	// rune \M-x, as `"\C-x\M-a"` in an inputrc file); what the user types for it is still Seq
	Meta bool `json:"meta,omitempty"`
}

// HistSrc describes one history source bound to the shell.
type HistSrc struct {
	Kind    string   `json:"kind"` // memory | file | stub
	Name    string   `json:"name"`
	Entries []string `json:"entries"`
	// stub only: probability (per mille) of Write / GetLine failing.
	FailWrite int `json:"fail_write,omitempty"`
	FailGet   int `json:"fail_get,omitempty"`
	// file only: the directory of the file is removed once the entries are in it (appends cannot open the file any more)
	Unwritable bool `json:"unwritable,omitempty"`
}

// Cand is one completion candidate.
type Cand struct {
	Value string `json:"v"`
	Desc  string `json:"d,omitempty"`
	Tag   string `json:"t,omitempty"`
}

// CompSpec describes the harness completer.
type CompSpec struct {
	Cands      []Cand `json:"cands"`
	NoSpace    string `json:"nospace,omitempty"`
	PrefixOnly bool   `json:"prefix_only,omitempty"` // only return candidates having the typed prefix
	List       bool   `json:"list,omitempty"`        // the completer asks for the candidates to be displayed as a list (Completions.DisplayList)
}

// Env is the environment of a session.
type Env struct {
	W                int               `json:"w"`
	H                int               `json:"h"`
	StartRow         int               `json:"start_row"`
	Prompt           string            `json:"prompt"`
	RPrompt          string            `json:"rprompt,omitempty"`
	PromptLater      string            `json:"prompt_later,omitempty"` // the prompt from the second Readline call of the session on
	Mode             string            `json:"mode"` // emacs | vi
	Inputrc          []string          `json:"inputrc,omitempty"`
	Files            map[string]string `json:"files,omitempty"`
	Binds            []BindSpec        `json:"binds,omitempty"`
	History          []HistSrc         `json:"history,omitempty"`
	NoDefaultHistory bool              `json:"no_default_history,omitempty"`
	Comp             *CompSpec         `json:"comp,omitempty"`
	Multiline        string            `json:"multiline,omitempty"` // "" | "backslash"
	Probes           int               `json:"probes,omitempty"`
	PanicCmd         bool              `json:"panic_cmd,omitempty"`
	TransientPrompt  string            `json:"transient_prompt,omitempty"` // the application sets a transient prompt function returning this
	AppCommands      []string          `json:"app_commands,omitempty"`     // commands the application registers under these names (they do nothing)
	Termios          *TermiosSpec      `json:"termios,omitempty"`
	Opts             *OptSpec          `json:"opts,omitempty"`
}

// OptSpec are inputrc options given to NewShell.
type OptSpec struct {
	App  string `json:"app,omitempty"`
	Term string `json:"term,omitempty"`
	Mode string `json:"mode,omitempty"`
}

// TermiosSpec is the cooked-mode termios set on the pty before the call.
type TermiosSpec struct {
	Lflag uint32 `json:"lflag"`
	Iflag uint32 `json:"iflag"`
	Vmin  uint8  `json:"vmin"`
	Vtime uint8  `json:"vtime"`
}

// Fault is an injected fault on the terminal input side.
type Fault struct {
	Kind     string `json:"kind"`      // eof | eio | eintr | data_eof | report_cut | report_withhold | unsolicited
	ReadKind string `json:"read_kind"` // main | arg | cursor | any
	Nth      int    `json:"nth"`       // n-th read of that kind (1-based); for report_* the n-th cursor query
	Arg      int    `json:"arg,omitempty"`
}

// Disturb is a resize or asynchronous print injected at a scheduling point.
type Disturb struct {
	Kind  string `json:"kind"` // sigwinch | resize | printf | printtransientf
	Task  string `json:"task"` // main | resize | app | any
	Site  string `json:"site"` // a yield site, or "inputwait" | "argwait" | "read.main" | "read.arg" | "read.cursor"
	Nth   int    `json:"nth"`
	W     int    `json:"w,omitempty"`
	H     int    `json:"h,omitempty"`
	Burst int    `json:"burst,omitempty"`
	Msg   string `json:"msg,omitempty"` // printf | printtransientf: literal text appended to the message (may hold newlines)
}

// Plan is the schedule/fault plan of a session.
type Plan struct {
	Policy  string    `json:"policy"`            // canonical | seeded
	Class   string    `json:"class"`             // S0 | S1 | S2 | S3
	Paste   bool      `json:"paste,omitempty"`   // S1 only: several tokens may be typed at one wait
	ViRule  bool      `json:"vi_rule,omitempty"` // never cut directly after ESC even if the session starts in emacs mode (it may switch)
	Faults  []Fault   `json:"faults,omitempty"`
	Disturb []Disturb `json:"disturb,omitempty"`
	Sites   []string  `json:"sites,omitempty"` // yield sites that actually park in this run
	// TypeWithReport: that many times, when a cursor position report asked for by another task (resize watcher,
	// Printf caller) is about to be read by the main input loop, the next script token is typed first so that
	// both arrive in one read (class S0 otherwise types only while nothing else is going on)
	TypeWithReport int      `json:"type_with_report,omitempty"`
	Tape           []uint32 `json:"tape,omitempty"`
	UseTape        bool     `json:"use_tape,omitempty"`
	Seed           uint64   `json:"seed"`
}

// Scenario is everything needed to reproduce one check case.
type Scenario struct {
	Prop   string          `json:"property"`
	Family string          `json:"family"`
	Tier   string          `json:"tier"`
	Seed   uint64          `json:"seed"`
	Index  int             `json:"index"`
	Env    Env             `json:"env"`
	Script []Token         `json:"script,omitempty"`
	Plan   Plan            `json:"plan"`
	Plans  []Plan          `json:"plans,omitempty"` // extra plans for multi-run properties (C05, C20)
	X      json.RawMessage `json:"x,omitempty"`     // family-specific payload
	Steps  int             `json:"step_budget,omitempty"`
}

// Result is what a worker reports for one scenario.
type Result struct {
	Prop       string         `json:"property"`
	Index      int            `json:"index"`
	Verdict    string         `json:"verdict"` // ok | violation | error
	Class      string         `json:"class,omitempty"`
	Oracle     string         `json:"oracle,omitempty"`
	Sig        string         `json:"sig,omitempty"`
	Msg        string         `json:"msg,omitempty"`
	Steps      int            `json:"steps"`
	Sessions   int            `json:"sessions"`
	Counters   map[string]int `json:"counters,omitempty"`
	SigHash    string         `json:"sig_hash,omitempty"`
	ILHash     string         `json:"il_hash,omitempty"`
	TraceHash  string         `json:"trace_hash,omitempty"`
	Nontrivial bool           `json:"nontrivial"`
	Scenario   *Scenario      `json:"scenario,omitempty"`
	Sample     any            `json:"sample,omitempty"`
	States     []string       `json:"states,omitempty"`
}

// Cmd is a command sent by the orchestrator to a worker.
type Cmd struct {
	Op       string    `json:"op"` // gen | exec | quit
	Prop     string    `json:"prop,omitempty"`
	Tier     string    `json:"tier,omitempty"`
	Seed     uint64    `json:"seed,omitempty"`
	From     int       `json:"from,omitempty"`
	To       int       `json:"to,omitempty"`
	Scenario *Scenario `json:"scenario,omitempty"`
	Sample   bool      `json:"sample,omitempty"`
	Trace    bool      `json:"trace,omitempty"`
}

// Msg is a line sent by a worker to the orchestrator.
type Msg struct {
	Start  *int    `json:"start,omitempty"`  // about to run scenario index
	Result *Result `json:"result,omitempty"` // finished one
	Done   bool    `json:"done,omitempty"`   // finished the command
	Beat   bool    `json:"beat,omitempty"`   // still working (long work outside the scheduler): resets the watchdog
	Err    string  `json:"err,omitempty"`
}

// Replay is the content of a replay file.
type Replay struct {
	Property  string    `json:"property"`
	Class     string    `json:"class"`
	Oracle    string    `json:"oracle"`
	Sig       string    `json:"sig"`
	Msg       string    `json:"msg"`
	TraceHash string    `json:"trace_hash,omitempty"`
	Minimised bool      `json:"minimised"`
	Scenario  *Scenario `json:"scenario"`
}
