package sim

import (
	"errors"
	"fmt"
	"math/rand/v2"
	"os"
	"os/signal"
	"path/filepath"
	"strings"
	"syscall"
	"unsafe"

	"github.com/reeflective/readline"
	"github.com/reeflective/readline/inputrc"

	"verifsim/wire"
)

// Proc owns the per-process resources of a worker: one pty pair (the
// slave is os.Stdin and fd 2, data never flows through it: it is there
// for termios and window-size ioctls), one memfd receiving everything
// the library prints, and a scratch directory.
type Proc struct {
	Master, Slave  *os.File
	Out            *os.File
	Dir            string
	RealStderr     *os.File
	keep           chan os.Signal
	Sessions       int
	DefaultTermios syscall.Termios
	Stubs          []*StubSource
	HistFiles      []string
	Sources        []readline.History // bound sources in binding order
	SourceNames    []string
}

func ioctl(fd uintptr, req uintptr, arg unsafe.Pointer) error {
	_, _, e := syscall.Syscall(syscall.SYS_IOCTL, fd, req, uintptr(arg))
	if e != 0 {
		return e
	}
	return nil
}

// NewProc prepares the process. It must be called outside any bubble.
func NewProc() (*Proc, error) {
	p := &Proc{}
	// The first signal.Notify of the process must happen outside a bubble.
	p.keep = make(chan os.Signal, 1)
	signal.Notify(p.keep, syscall.SIGWINCH)

	fd, err := syscall.Dup(2)
	if err != nil {
		return nil, err
	}
	p.RealStderr = os.NewFile(uintptr(fd), "realstderr")

	m, err := os.OpenFile("/dev/ptmx", os.O_RDWR|syscall.O_NOCTTY, 0)
	if err != nil {
		return nil, err
	}
	var unlock int32
	if err := ioctl(m.Fd(), syscall.TIOCSPTLCK, unsafe.Pointer(&unlock)); err != nil {
		return nil, fmt.Errorf("unlockpt: %w", err)
	}
	var n uint32
	if err := ioctl(m.Fd(), syscall.TIOCGPTN, unsafe.Pointer(&n)); err != nil {
		return nil, fmt.Errorf("ptsname: %w", err)
	}
	sl, err := os.OpenFile(fmt.Sprintf("/dev/pts/%d", n), os.O_RDWR|syscall.O_NOCTTY, 0)
	if err != nil {
		return nil, err
	}
	p.Master, p.Slave = m, sl
	go func() { // drain the master side just in case something echoes
		buf := make([]byte, 4096)
		for {
			if _, err := m.Read(buf); err != nil {
				return
			}
		}
	}()
	if err := syscall.Dup2(int(sl.Fd()), 2); err != nil {
		return nil, err
	}
	os.Stdin = sl

	mfd, _, e := syscall.Syscall(319 /* memfd_create */, uintptr(unsafe.Pointer(&[]byte("simout\x00")[0])), 0, 0)
	if e != 0 {
		return nil, fmt.Errorf("memfd_create: %w", e)
	}
	if _, _, e := syscall.Syscall(syscall.SYS_FCNTL, mfd, syscall.F_SETFL, syscall.O_APPEND|syscall.O_RDWR); e != 0 {
		return nil, fmt.Errorf("fcntl: %w", e)
	}
	p.Out = os.NewFile(mfd, "simout")
	os.Stdout = p.Out
	os.Stderr = p.Out

	base := "/dev/shm"
	if st, err := os.Stat(base); err != nil || !st.IsDir() {
		base = os.TempDir()
	}
	p.Dir, err = os.MkdirTemp(base, "verifsim-")
	if err != nil {
		return nil, err
	}
	os.Setenv("HOME", p.Dir)
	os.Setenv("TERM", "xterm")
	os.Setenv("INPUTRC", filepath.Join(p.Dir, "inputrc"))
	os.Setenv("TMPDIR", p.Dir)
	os.Unsetenv("VISUAL")
	os.Unsetenv("EDITOR")
	os.WriteFile(filepath.Join(p.Dir, "inputrc"), nil, 0o600)

	t, err := p.termios()
	if err != nil {
		return nil, err
	}
	p.DefaultTermios = *t

	readline.VerifSetStdin(simReader{})
	readline.VerifSetCursorRead(cursorRead)
	readline.VerifSetYield(yieldHook)
	readline.VerifSetResizeHook(resizeHook)
	return p, nil
}

// Close removes the scratch directory.
func (p *Proc) Close() {
	if p.Dir != "" {
		os.RemoveAll(p.Dir)
	}
}

// Logf prints to the worker's real stderr.
func (p *Proc) Logf(format string, a ...any) {
	fmt.Fprintf(p.RealStderr, format+"\n", a...)
}

func (p *Proc) termios() (*syscall.Termios, error) {
	var t syscall.Termios
	if err := ioctl(p.Slave.Fd(), syscall.TCGETS, unsafe.Pointer(&t)); err != nil {
		return nil, err
	}
	return &t, nil
}

func (p *Proc) setTermios(t *syscall.Termios) error {
	return ioctl(p.Slave.Fd(), syscall.TCSETS, unsafe.Pointer(t))
}

// Termios and SetTermios let an executor play the application that changes the terminal's modes
// between two Readline calls (stty, a password prompt that left echo off ...).
func (p *Proc) Termios() (*syscall.Termios, error)  { return p.termios() }
func (p *Proc) SetTermios(t *syscall.Termios) error { return p.setTermios(t) }

func (p *Proc) onlcr() bool {
	t, err := p.termios()
	if err != nil {
		return true
	}
	return t.Oflag&syscall.OPOST != 0 && t.Oflag&syscall.ONLCR != 0
}

// TypeIntoKernel writes bytes to the pty master: they sit in the terminal's own input queue, as keys do that
// were typed while the application was not reading (the simulated keyboard goes through the Stdin seam instead).
// The kernel hands them to the line discipline from a worker of its own: when b ends a line (or the terminal
// is not in canonical mode) the call waits, in real time, until they are all there.
func (p *Proc) TypeIntoKernel(b []byte) error {
	_, err := p.Master.Write(b)
	ts := syscall.Timespec{Nsec: 100_000}
	for i := 0; i < 5000 && p.KernelQueue() < len(b); i++ {
		syscall.Nanosleep(&ts, nil)
	}
	return err
}

// KernelQueue tells how many bytes are waiting in the terminal's input queue (FIONREAD on the slave).
func (p *Proc) KernelQueue() int {
	var n int32
	if err := ioctl(p.Slave.Fd(), 0x541B /* FIONREAD */, unsafe.Pointer(&n)); err != nil {
		return -1
	}
	return int(n)
}

// FlushKernelQueue empties the terminal's input queue (TCFLSH, TCIFLUSH).
func (p *Proc) FlushKernelQueue() {
	syscall.Syscall(syscall.SYS_IOCTL, p.Slave.Fd(), 0x540B /* TCFLSH */, 0 /* TCIFLUSH */)
}

type winsize struct{ Row, Col, X, Y uint16 }

func (p *Proc) setSize(w, h int) {
	ws := winsize{Row: uint16(h), Col: uint16(w)}
	ioctl(p.Slave.Fd(), syscall.TIOCSWINSZ, unsafe.Pointer(&ws))
}

func (p *Proc) readOutput(off *int64) []byte {
	var out []byte
	buf := make([]byte, 8192)
	for {
		n, err := syscall.Pread(int(p.Out.Fd()), buf, *off)
		if n > 0 {
			out = append(out, buf[:n]...)
			*off += int64(n)
		}
		if err != nil || n < len(buf) {
			break
		}
	}
	return out
}

func (p *Proc) prepare(s *Session, env *wire.Env) {
	p.Sessions++
	syscall.Ftruncate(int(p.Out.Fd()), 0)
	s.outOff = 0
	if env.W <= 0 {
		env.W = 80
	}
	if env.H <= 0 {
		env.H = 24
	}
	p.setSize(env.W, env.H)
	t := p.DefaultTermios
	if env.Termios != nil {
		t.Lflag = env.Termios.Lflag
		t.Iflag = env.Termios.Iflag
		t.Cc[syscall.VMIN] = env.Termios.Vmin
		t.Cc[syscall.VTIME] = env.Termios.Vtime
	}
	p.setTermios(&t)

	// scratch content
	ents, _ := os.ReadDir(p.Dir)
	for _, e := range ents {
		os.RemoveAll(filepath.Join(p.Dir, e.Name()))
	}
	var rc []string
	if env.Mode == "vi" {
		rc = append(rc, "set editing-mode vi")
	} else if env.Mode == "emacs" {
		rc = append(rc, "set editing-mode emacs")
	}
	rc = append(rc, env.Inputrc...)
	os.WriteFile(filepath.Join(p.Dir, "inputrc"), []byte(strings.Join(rc, "\n")+"\n"), 0o600)
	for name, content := range env.Files {
		path := filepath.Join(p.Dir, name)
		os.MkdirAll(filepath.Dir(path), 0o700)
		os.WriteFile(path, []byte(content), 0o600)
	}
	term := "xterm"
	if env.Opts != nil && env.Opts.Term != "" {
		term = env.Opts.Term
	}
	os.Setenv("TERM", term)
	p.Stubs = nil
	p.HistFiles = nil
	p.Sources = nil
	p.SourceNames = nil
}

func (p *Proc) cleanup(s *Session) {
	readline.VerifSetFileFault(nil)
}

// Path returns a path inside the scratch directory.
func (p *Proc) Path(name string) string { return filepath.Join(p.Dir, name) }

func (p *Proc) newShell(env *wire.Env) *readline.Shell {
	var opts []inputrc.Option
	if env.Opts != nil {
		if env.Opts.App != "" {
			opts = append(opts, inputrc.WithApp(env.Opts.App))
		}
		if env.Opts.Term != "" {
			opts = append(opts, inputrc.WithTerm(env.Opts.Term))
		}
		if env.Opts.Mode != "" {
			opts = append(opts, inputrc.WithMode(env.Opts.Mode))
		}
	}
	sh := readline.NewShell(opts...)
	prompt := env.Prompt
	later := env.PromptLater
	sh.Prompt.Primary(func() string {
		promptPoint()
		if s := cur.Load(); later != "" && s != nil && s.calls > 1 {
			return later
		}
		return prompt
	})
	if env.RPrompt != "" {
		rp := env.RPrompt
		sh.Prompt.Right(func() string { return rp })
	}
	if env.TransientPrompt != "" {
		tp := env.TransientPrompt
		sh.Prompt.Transient(func() string { return tp })
	}
	if len(env.AppCommands) > 0 {
		cmds := map[string]func(){}
		for _, n := range env.AppCommands {
			cmds[n] = func() {}
		}
		sh.Keymap.Register(cmds)
	}
	for _, b := range env.Binds {
		seq := string(b.Seq)
		if b.Meta {
			var rs []rune
			bs := []byte(seq)
			for i := 0; i < len(bs); i++ {
				if bs[i] == 0x1b && i+1 < len(bs) && bs[i+1] < 0x80 {
					rs = append(rs, inputrc.Enmeta(rune(bs[i+1])))
					i++
					continue
				}
				rs = append(rs, rune(bs[i]))
			}
			seq = string(rs)
		}
		sh.Config.Bind(b.Keymap, seq, b.Action, b.Macro)
	}
	if env.NoDefaultHistory {
		sh.History.Delete()
	}
	for i, h := range env.History {
		name := h.Name
		if name == "" {
			name = fmt.Sprintf("src%d", i)
		}
		switch h.Kind {
		case "memory":
			m := readline.NewInMemoryHistory()
			for _, e := range h.Entries {
				m.Write(e)
			}
			sh.History.Add(name, m)
			p.Sources = append(p.Sources, m)
			p.SourceNames = append(p.SourceNames, name)
		case "file":
			path := p.Path(fmt.Sprintf("hist-%d.jsonl", i))
			if h.Unwritable {
				dir := p.Path(fmt.Sprintf("gone-%d", i))
				os.RemoveAll(dir)
				os.MkdirAll(dir, 0o700)
				path = dir + "/hist.jsonl"
			}
			os.Remove(path)
			f, err := readline.NewHistoryFromFile(path)
			if err != nil {
				os.WriteFile(path, nil, 0o600)
				f, _ = readline.NewHistoryFromFile(path)
			}
			for _, e := range h.Entries {
				f.Write(e)
			}
			if h.Unwritable {
				os.RemoveAll(p.Path(fmt.Sprintf("gone-%d", i)))
			}
			p.HistFiles = append(p.HistFiles, path)
			sh.History.Add(name, f)
			p.Sources = append(p.Sources, f)
			p.SourceNames = append(p.SourceNames, name)
		case "stub":
			st := &StubSource{Items: append([]string(nil), h.Entries...), FailWrite: h.FailWrite, FailGet: h.FailGet,
				rng: rand.New(rand.NewPCG(uint64(len(h.Entries))+77, uint64(i)+1))}
			p.Stubs = append(p.Stubs, st)
			sh.History.Add(name, st)
			p.Sources = append(p.Sources, st)
			p.SourceNames = append(p.SourceNames, name)
		}
	}
	if env.Comp != nil {
		spec := env.Comp
		sh.Completer = func(line []rune, cursor int) readline.Completions {
			return BuildCompletions(spec, line, cursor)
		}
	}
	switch env.Multiline {
	case "backslash":
		sh.AcceptMultiline = func(line []rune) bool {
			return len(line) == 0 || line[len(line)-1] != '\\'
		}
	}
	return sh
}

// BuildCompletions turns a CompSpec into library completions.
func BuildCompletions(spec *wire.CompSpec, line []rune, cursor int) readline.Completions {
	if cursor > len(line) {
		cursor = len(line)
	}
	ws := cursor
	for ws > 0 && line[ws-1] != ' ' && line[ws-1] != '\t' && line[ws-1] != '\n' {
		ws--
	}
	prefix := string(line[ws:cursor])
	// One Completions value with per-candidate tags: merging several of them goes through
	// a Go map in the library and would make the group order differ from run to run.
	tagOf := map[string]string{}
	described := false
	tagged := false
	for _, c := range spec.Cands {
		if c.Desc != "" {
			described = true
		}
		if c.Tag != "" {
			tagged = true
		}
	}
	var vals []string
	for _, c := range spec.Cands {
		if spec.PrefixOnly && !strings.HasPrefix(c.Value, prefix) {
			continue
		}
		tagOf[c.Value] = c.Tag
		if described {
			vals = append(vals, c.Value, c.Desc)
		} else {
			vals = append(vals, c.Value)
		}
	}
	var all readline.Completions
	if described {
		all = readline.CompleteValuesDescribed(vals...)
	} else {
		all = readline.CompleteValues(vals...)
	}
	if tagged {
		all = all.TagF(func(value string) string { return tagOf[value] })
	}
	all = all.NoSort()
	if spec.List {
		all = all.DisplayList()
	}
	if spec.NoSpace != "" {
		all = all.NoSpace([]rune(spec.NoSpace)...)
	}
	return all
}

// StubSource is a simulated history.Source: an in-memory log that
// records every call and can fail Write / GetLine.
type StubSource struct {
	Items     []string
	FailWrite int
	FailGet   int
	Calls     []string
	WriteErrs int
	GetErrs   int
	rng       *rand.Rand
}

var errStub = errors.New("injected history source failure")

func (s *StubSource) Write(line string) (int, error) {
	if s.FailWrite > 0 && s.rng.IntN(1000) < s.FailWrite {
		s.WriteErrs++
		s.Calls = append(s.Calls, "write-fail:"+line)
		return len(s.Items), errStub
	}
	s.Calls = append(s.Calls, "write:"+line)
	s.Items = append(s.Items, line)
	return len(s.Items), nil
}

func (s *StubSource) GetLine(i int) (string, error) {
	if s.FailGet > 0 && s.rng.IntN(1000) < s.FailGet {
		s.GetErrs++
		return "", errStub
	}
	if i < 0 || i >= len(s.Items) {
		return "", errors.New("stub: index out of range")
	}
	return s.Items[i], nil
}

func (s *StubSource) Len() int          { return len(s.Items) }
func (s *StubSource) Dump() interface{} { return s.Items }
