// Package sim is the deterministic simulator: one Readline session runs
// inside a testing/synctest bubble; a one-runner-at-a-time scheduler
// decides, from one seeded decision source, every interleaving of the
// library's goroutines, every cut of the terminal input stream, every
// fault and every disturbance.
package sim

import (
	"bytes"
	"fmt"
	"hash/fnv"
	"io"
	"math/rand/v2"
	"os"
	"runtime"
	"sort"
	"strconv"
	"strings"
	"sync"
	"sync/atomic"
	"syscall"
	"testing"
	"testing/synctest"

	"github.com/reeflective/readline"

	"verifsim/emu"
	"verifsim/wire"
)

// ---------------------------------------------------------------- types

type reqKind int

const (
	kYield reqKind = iota
	kRead          // core.Stdin.Read (main loop or ReadKey)
	kCRead         // direct cursor-report read of GetCursorPos
)

func (k reqKind) String() string { return [...]string{"yield", "read", "cread"}[k] }

type response struct {
	n     int
	err   error
	abort bool
}

type request struct {
	kind reqKind
	task *Task
	site string // yield site, or read kind: main | arg | cursor | other
	buf  []byte
	nth  int // ordinal of this read among reads of its kind
	resp chan response
}

// Task is one goroutine of the system under test.
type Task struct {
	Label    string
	Kind     string // main | resize | app
	gid      uint64
	Done     bool
	Panic    any
	Stack    string
	parkedAt map[string]int
}

type fbyte struct {
	b   byte
	grp int // 0 = typed byte; >0 = atomic group (cursor report)
	src uint8
}

const (
	srcTyped = iota
	srcReport
	srcUnsolicited
)

// Snap is the observable editor state at an input wait.
type Snap struct {
	Step         int       `json:"step"`
	Kind         string    `json:"kind"` // main | arg
	Tokens       int       `json:"tokens"`
	Partial      int       `json:"partial"`  // bytes of the current token already typed
	Consumed     int       `json:"consumed"` // typed bytes handed to reads so far
	Line         string    `json:"line"`
	Pos          int       `json:"pos"`
	Mark         int       `json:"mark"`
	SelActive    bool      `json:"sel_active"`
	SelB         int       `json:"sel_b"`
	SelE         int       `json:"sel_e"`
	Main         string    `json:"main"`
	Local        string    `json:"local"`
	Kill         string    `json:"kill"`
	Call         int       `json:"call"` // index of the Readline call
	Screen       *emu.Term `json:"-"`
	ReportRow    int       `json:"report_row"` // last cursor report sent by the terminal (1-based), 0 if none
	ReportCol    int       `json:"report_col"`
	AnchorAbsRow int       `json:"anchor_abs_row"` // absolute (scroll-independent) row of the last report
	ReportWrap   bool      `json:"report_wrap"`    // the terminal was in pending-wrap state when it answered
	Queries      int       `json:"queries"`
	OutOff       int       `json:"out_off"` // offset in raw output at this wait
	Dirty        bool      `json:"dirty"`   // a disturbance redisplay may be incomplete
}

// Return is one return of Readline.
type Return struct {
	Line string
	Err  string
	Step int
}

// Outcome is everything recorded about a session.
type Outcome struct {
	End                         string // RETURNED | WAITING | DEADLOCK | LIVELOCK | LIVELOCK_EOF | PANIC | BUDGET
	EndDetail                   string
	Returns                     []Return
	Waits                       []Snap
	Steps                       int
	Panic                       string
	PanicTask                   string
	PanicStack                  string
	Stuck                       bool
	StuckMsg                    string
	TraceHash                   uint64
	ILHash                      uint64
	SigHash                     uint64
	States                      map[uint64]struct{}
	Counters                    map[string]int
	Tape                        []uint32
	Final                       *emu.Term
	FinalSnap                   *Snap
	RawOut                      []byte
	Events                      []string
	TermiosBefore, TermiosAfter *syscall.Termios
	TermiosErr                  string
	Blocked                     string // description of what tasks were doing at a deadlock
	EOFReads                    int
	TransientReturned           bool
	Extra                       map[string]any
	DisturbTok                  []int // for each disturbance that ran: how many tokens of the script had been typed by then
}

// Hooks customise a session per property family.
type Hooks struct {
	Setup  func(s *Session, sh *readline.Shell)
	Body   func(s *Session, sh *readline.Shell)
	OnWait func(s *Session, snap *Snap)
	OnStep func(s *Session)
	OnEnd  func(s *Session, sh *readline.Shell)
}

// Spec is what a single session needs.
type Spec struct {
	Env        wire.Env
	Script     []wire.Token
	Plan       wire.Plan
	StepBudget int
	Hooks      Hooks
	WantScreen bool
	WantEvents bool
	WantRaw    bool
	EOFBound   int
}

// Session is a running simulation.
type Session struct {
	promptArmed bool // the next run of the prompt function is the first of a Readline call
	Spec *Spec
	Out  *Outcome
	Sh   *readline.Shell
	Term *emu.Term
	P    *Proc

	mu      sync.Mutex
	pending []*request
	tasks   map[uint64]*Task
	order   []*Task
	nResize int
	nApp    int
	main    *Task

	aborting atomic.Bool

	fifo     []fbyte
	grpSeq   int
	forceCut int // group id after which a delivery must stop (report_cut)

	// script position
	tok, off     int
	typedBytes   int
	consumed     int
	lastTypedESC bool
	fusedDone    int // tokens typed together with another task's cursor report (Plan.TypeWithReport)

	eof, eio             bool
	endReads             int
	readCount            map[string]int
	queryCount           int
	faultsDone           []bool
	distDone             []bool
	siteOn               map[string]bool
	siteCount            map[string]int
	reportRow, reportCol int
	reportAbs            int
	reportWrap           bool

	rng     *rand.Rand
	tapePos int

	outOff       int64
	step         int
	lastProgress int
	dirty        bool
	calls        int

	resizeCh chan os.Signal
	multiKey bool

	th, il, sg hashState
}

type hashState struct{ h uint64 }

func (h *hashState) add(parts ...string) {
	if h.h == 0 {
		h.h = 14695981039346656037
	}
	for _, p := range parts {
		for i := 0; i < len(p); i++ {
			h.h ^= uint64(p[i])
			h.h *= 1099511628211
		}
		h.h ^= 0xff
		h.h *= 1099511628211
	}
}

func hashStr(s string) uint64 {
	f := fnv.New64a()
	f.Write([]byte(s))
	return f.Sum64()
}

// cur is the session that the process-global hooks dispatch to.
var cur atomic.Pointer[Session]

// ---------------------------------------------------------------- hooks

type simReader struct{}

func (simReader) Read(p []byte) (int, error) {
	s := cur.Load()
	if s == nil {
		return 0, io.EOF
	}
	r := s.park(kRead, readKind(), p)
	return r.n, r.err
}

func (simReader) Close() error { return nil }

func cursorRead(p []byte) (int, error) {
	s := cur.Load()
	if s == nil {
		return 0, io.EOF
	}
	r := s.park(kCRead, "cursor", p)
	return r.n, r.err
}

func yieldHook(site string) {
	s := cur.Load()
	if s == nil {
		return
	}
	s.yield(site)
}

func resizeHook(sig chan os.Signal, done chan bool) {
	s := cur.Load()
	if s == nil {
		return
	}
	s.mu.Lock()
	s.resizeCh = sig
	s.mu.Unlock()
}

// readKind classifies a terminal read by its caller.
func readKind() string {
	var pcs [24]uintptr
	n := runtime.Callers(3, pcs[:])
	frames := runtime.CallersFrames(pcs[:n])
	for {
		f, more := frames.Next()
		switch {
		case strings.HasSuffix(f.Function, "core.(*Keys).ReadKey"):
			return "arg"
		case strings.HasSuffix(f.Function, "core.WaitAvailableKeys"):
			return "main"
		}
		if !more {
			break
		}
	}
	return "other"
}

func goid() uint64 {
	var buf [64]byte
	n := runtime.Stack(buf[:], false)
	// "goroutine 123 ["
	f := bytes.Fields(buf[:n])
	if len(f) < 2 {
		return 0
	}
	id, _ := strconv.ParseUint(string(f[1]), 10, 64)
	return id
}

func (s *Session) taskOf(gid uint64) *Task {
	if t, ok := s.tasks[gid]; ok {
		return t
	}
	s.nResize++
	t := &Task{Label: fmt.Sprintf("resize-%d", s.nResize), Kind: "resize", gid: gid, parkedAt: map[string]int{}}
	s.tasks[gid] = t
	s.order = append(s.order, t)
	return t
}

func (s *Session) park(kind reqKind, site string, buf []byte) response {
	if s.aborting.Load() {
		runtime.Goexit()
	}
	gid := goid()
	r := &request{kind: kind, site: site, buf: buf, resp: make(chan response)}
	s.mu.Lock()
	r.task = s.taskOf(gid)
	if kind != kYield {
		s.readCount[site]++
		r.nth = s.readCount[site]
	}
	s.pending = append(s.pending, r)
	s.mu.Unlock()
	resp := <-r.resp
	if resp.abort {
		runtime.Goexit()
	}
	return resp
}

func (s *Session) yield(site string) {
	gid := goid()
	s.mu.Lock()
	t := s.taskOf(gid)
	key := t.Kind + "@" + site
	s.siteCount[key]++
	on := s.siteOn[site]
	s.mu.Unlock()
	if !on {
		return
	}
	s.park(kYield, site, nil)
}

// ---------------------------------------------------------------- decisions

// choose returns a value in [0,n). 0 is always the canonical choice.
func (s *Session) choose(n int) int {
	if n <= 1 {
		return 0
	}
	if s.Spec.Plan.Policy == "canonical" {
		return 0
	}
	var v uint32
	if s.Spec.Plan.UseTape {
		if s.tapePos < len(s.Spec.Plan.Tape) {
			v = s.Spec.Plan.Tape[s.tapePos]
		}
		s.tapePos++
	} else {
		v = uint32(s.rng.IntN(n))
	}
	s.Out.Tape = append(s.Out.Tape, v)
	return int(v % uint32(n))
}

// ---------------------------------------------------------------- run

// Run executes one session and returns its outcome. It never panics.
func Run(t *testing.T, p *Proc, spec *Spec) *Outcome {
	s := &Session{
		Spec: spec, P: p,
		Out:       &Outcome{Counters: map[string]int{}, States: map[uint64]struct{}{}, Extra: map[string]any{}},
		tasks:     map[uint64]*Task{},
		readCount: map[string]int{},
		siteOn:    map[string]bool{},
		siteCount: map[string]int{},
	}
	for _, site := range spec.Plan.Sites {
		s.siteOn[site] = true
	}
	// Structural sites always park: they sit right after the internal channel operations by
	// which one library goroutine wakes another, so that the waker and the woken never run
	// at the same time (one runner) whatever GOMAXPROCS is.
	for _, site := range []string{"cursor.received", "report.handoff.after", "wait.keysonce.after", "readkey.keysonce.received", "resize.woken"} {
		s.siteOn[site] = true
	}
	for _, d := range spec.Plan.Disturb {
		if !strings.HasPrefix(d.Site, "read.") && d.Site != "inputwait" && d.Site != "argwait" {
			s.siteOn[d.Site] = true
		}
	}
	s.faultsDone = make([]bool, len(spec.Plan.Faults))
	s.distDone = make([]bool, len(spec.Plan.Disturb))
	s.rng = rand.New(rand.NewPCG(spec.Plan.Seed, 0x9e3779b97f4a7c15))
	if spec.StepBudget == 0 {
		spec.StepBudget = 4000
	}
	if spec.EOFBound == 0 {
		// A command repeated by its numeric argument may ask for its argument key once per
		// iteration, and each request fails at once after the end of input: that loop is bounded
		// by the argument (generated scripts keep arguments <= 999), it is not a livelock.
		spec.EOFBound = 2500
	}
	func() {
		defer func() {
			if r := recover(); r != nil {
				msg := fmt.Sprint(r)
				if strings.Contains(msg, "blocked goroutines remain") || strings.Contains(msg, "deadlock") {
					s.Out.Stuck = true
					s.Out.StuckMsg = msg
				} else {
					s.Out.Stuck = true
					s.Out.StuckMsg = "bubble panic: " + msg
				}
			}
		}()
		synctest.Test(t, func(t *testing.T) { s.root() })
	}()
	cur.Store(nil)
	s.Out.TraceHash = s.th.h
	s.Out.ILHash = s.il.h
	s.Out.SigHash = s.sg.h
	s.Out.Steps = s.step
	return s.Out
}

func (s *Session) count(k string) { s.Out.Counters[k]++ }

func (s *Session) event(format string, a ...any) {
	if s.Spec.WantEvents && len(s.Out.Events) < 5000 {
		s.Out.Events = append(s.Out.Events, fmt.Sprintf("%d ", s.step)+fmt.Sprintf(format, a...))
	}
}

// Readline calls Shell.Readline and records the return.
// promptPoint is called by the application's prompt function (the harness's closure): the first time it runs in a
// Readline call is a scheduling point of its own, "app.prompt.first" -- the library is inside its start-up there.
func promptPoint() {
	s := cur.Load()
	if s == nil {
		return
	}
	s.mu.Lock()
	armed := s.promptArmed
	s.promptArmed = false
	s.mu.Unlock()
	if armed {
		s.yield("app.prompt.first")
	}
}

func (s *Session) Readline(sh *readline.Shell) (string, error) {
	s.calls++
	s.mu.Lock()
	s.promptArmed = true
	s.mu.Unlock()
	line, err := sh.Readline()
	e := ""
	if err != nil {
		e = err.Error()
	}
	s.mu.Lock()
	s.Out.Returns = append(s.Out.Returns, Return{Line: line, Err: e, Step: s.step})
	s.mu.Unlock()
	return line, err
}

// ResizeIdle changes the terminal size while no Readline call is active (for a session body, between two
// calls): nothing of the library is listening for the signal then, the next call has to ask the terminal again.
func (s *Session) ResizeIdle(w, h int) {
	s.drain()
	s.P.setSize(w, h)
	s.Term.Resize(w, h)
	s.Out.Extra["resized_idle"] = true
	s.event("RESIZE-IDLE %dx%d", w, h)
}

func (s *Session) startTask(kind string, body func()) *Task {
	t := &Task{Kind: kind, parkedAt: map[string]int{}}
	switch kind {
	case "main":
		t.Label = "main"
	default:
		s.nApp++
		t.Label = fmt.Sprintf("app-%d", s.nApp)
	}
	ready := make(chan struct{})
	go func() {
		t.gid = goid()
		s.mu.Lock()
		s.tasks[t.gid] = t
		s.order = append(s.order, t)
		s.mu.Unlock()
		close(ready)
		defer func() {
			if r := recover(); r != nil {
				t.Panic = r
				buf := make([]byte, 16384)
				n := runtime.Stack(buf, false)
				t.Stack = string(buf[:n])
			}
			s.mu.Lock()
			t.Done = true
			s.mu.Unlock()
		}()
		body()
	}()
	<-ready
	return t
}

func (s *Session) root() {
	spec := s.Spec
	env := &spec.Env
	s.P.prepare(s, env)
	s.Term = emu.New(env.W, env.H, env.StartRow)
	s.Term.OnQuery = s.onQuery
	cur.Store(s)

	sh := s.P.newShell(env)
	s.Sh = sh
	if spec.Hooks.Setup != nil {
		spec.Hooks.Setup(s, sh)
	}
	tb, err := s.P.termios()
	if err == nil {
		s.Out.TermiosBefore = tb
	}

	body := spec.Hooks.Body
	if body == nil {
		body = func(s *Session, sh *readline.Shell) { s.Readline(sh) }
	}
	s.main = s.startTask("main", func() { body(s, sh) })

	s.loop()

	// Final observations.
	s.drain()
	ta, err := s.P.termios()
	if err == nil {
		s.Out.TermiosAfter = ta
	} else {
		s.Out.TermiosErr = err.Error()
	}
	s.Out.Final = s.Term.Clone()
	fs := s.snapshot("final")
	s.Out.FinalSnap = &fs
	if spec.Hooks.OnEnd != nil {
		func() {
			defer func() {
				if r := recover(); r != nil {
					s.Out.Extra["onend_panic"] = fmt.Sprint(r)
				}
			}()
			spec.Hooks.OnEnd(s, sh)
		}()
	}
	for k, v := range s.siteCount {
		s.Out.Counters["site:"+k] += v
	}

	// Teardown: every task parked at a simulator point is told to exit.
	s.aborting.Store(true)
	for i := 0; i < 8; i++ {
		s.mu.Lock()
		p := s.pending
		s.pending = nil
		s.mu.Unlock()
		if len(p) == 0 {
			break
		}
		for _, r := range p {
			r.resp <- response{abort: true}
		}
		synctest.Wait()
	}
	cur.Store(nil)
	s.P.cleanup(s)
}

func (s *Session) onQuery(row, col int) {
	s.queryCount++
	s.reportRow, s.reportCol = row, col
	s.reportAbs = row - 1 + s.Term.Scrolled
	s.reportWrap = s.Term.Wrap
	rep := fmt.Sprintf("\x1b[%d;%dR", row, col)
	// fault: report withheld / cut
	for i, f := range s.Spec.Plan.Faults {
		if s.faultsDone[i] || f.Nth != s.queryCount {
			continue
		}
		switch f.Kind {
		case "report_withhold":
			s.faultsDone[i] = true
			s.count("fault:report_withhold")
			s.event("FAULT report withheld")
			return
		case "report_cut":
			s.faultsDone[i] = true
			s.count("fault:report_cut")
			cut := 1 + f.Arg%(len(rep)-1)
			s.grpSeq++
			for _, b := range []byte(rep[:cut]) {
				s.fifo = append(s.fifo, fbyte{b, s.grpSeq, srcReport})
			}
			s.forceCut = s.grpSeq
			s.grpSeq++
			for _, b := range []byte(rep[cut:]) {
				s.fifo = append(s.fifo, fbyte{b, s.grpSeq, srcReport})
			}
			s.event("FAULT report cut at %d", cut)
			return
		}
	}
	s.grpSeq++
	for _, b := range []byte(rep) {
		s.fifo = append(s.fifo, fbyte{b, s.grpSeq, srcReport})
	}
}

// drain moves new terminal output into the emulator.
func (s *Session) drain() {
	data := s.P.readOutput(&s.outOff)
	if len(data) == 0 {
		return
	}
	s.Term.ONLCR = s.P.onlcr()
	s.Term.Write(data)
	s.th.add("out", string(data))
	if s.Spec.WantRaw && len(s.Out.RawOut) < 4<<20 {
		s.Out.RawOut = append(s.Out.RawOut, data...)
	}
}

type evKind int

const (
	evResume evKind = iota
	evDeliver
	evFault
	evType
	evEndRead // read at EOF/EIO
)

type event struct {
	kind   evKind
	req    *request
	weight int
	fault  int
}

func (s *Session) mainReq() *request {
	for _, r := range s.pending {
		if r.task == s.main && r.kind == kRead {
			return r
		}
	}
	return nil
}

func (s *Session) scriptLeft() bool {
	return s.tok < len(s.Spec.Script) && !s.eof && !s.eio
}

func (s *Session) allAppsDone() bool {
	for _, t := range s.order {
		if t.Kind == "app" && !t.Done {
			return false
		}
	}
	return true
}

func (s *Session) loop() {
	spec := s.Spec
	for {
		synctest.Wait()
		s.drain()
		if s.Out.End != "" {
			return
		}
		s.mu.Lock()
		sort.SliceStable(s.pending, func(i, j int) bool {
			a, b := s.pending[i], s.pending[j]
			if a.task.Label != b.task.Label {
				return a.task.Label < b.task.Label
			}
			return a.kind < b.kind
		})
		pend := append([]*request(nil), s.pending...)
		mainDone := s.main.Done
		s.mu.Unlock()

		if spec.Hooks.OnStep != nil {
			spec.Hooks.OnStep(s)
		}

		if s.main.Panic != nil {
			s.Out.End = "PANIC"
			s.Out.Panic = fmt.Sprint(s.main.Panic)
			s.Out.PanicTask = "main"
			s.Out.PanicStack = s.main.Stack
			return
		}
		for _, t := range s.order {
			if t.Panic != nil {
				s.Out.End = "PANIC"
				s.Out.Panic = fmt.Sprint(t.Panic)
				s.Out.PanicTask = t.Label
				s.Out.PanicStack = t.Stack
				return
			}
		}
		if mainDone && s.allAppsDone() && len(pend) == 0 {
			s.Out.End = "RETURNED"
			return
		}
		if s.step >= spec.StepBudget {
			s.Out.End = "BUDGET"
			if s.step-s.lastProgress > spec.StepBudget/2 {
				s.Out.End = "LIVELOCK"
				s.Out.EndDetail = s.describe(pend)
			}
			return
		}
		if s.step-s.lastProgress > 1500 {
			s.Out.End = "LIVELOCK"
			s.Out.EndDetail = s.describe(pend)
			return
		}

		if s.fireDisturbances(pend) {
			// a disturbance made another task runnable (resize watcher woken, Printf caller
			// started): let it run to its next simulator point before anything else is released
			continue
		}

		// ---- a key typed while the terminal's answer to another task's query is on its way
		if spec.Plan.TypeWithReport > s.fusedDone && s.scriptLeft() && len(s.fifo) > 0 && !s.lastTypedESC {
			onlyReport := true
			for _, fb := range s.fifo {
				if fb.src != srcReport {
					onlyReport = false
				}
			}
			if mr := s.mainReq(); onlyReport && mr != nil && mr.site == "main" && s.matchFault(mr) < 0 {
				s.fusedDone++
				s.step++
				s.count("reach:typed_with_foreign_report")
				s.typeSome()
				continue
			}
		}

		// ---- enabled events, canonical order first
		var evs []event
		for _, r := range pend {
			if r.kind == kYield {
				evs = append(evs, event{kind: evResume, req: r, weight: 6})
			}
		}
		for _, r := range pend {
			if r.kind == kYield {
				continue
			}
			if fi := s.matchFault(r); fi >= 0 {
				evs = append(evs, event{kind: evFault, req: r, weight: 6, fault: fi})
				continue
			}
			if len(s.fifo) > 0 {
				evs = append(evs, event{kind: evDeliver, req: r, weight: 6})
			} else if s.eof || s.eio {
				evs = append(evs, event{kind: evEndRead, req: r, weight: 6})
			}
		}
		mr := s.mainReq()
		quiet := len(evs) == 0 && mr != nil && !mainDone
		if quiet && len(pend) == 1 {
			// Input wait: the moment a user would look at the screen.
			s.inputWait(mr)
		}
		if s.scriptLeft() {
			switch spec.Plan.Class {
			case "S2", "S3":
				if spec.Env.Mode == "vi" && s.lastTypedESC {
					if quiet {
						evs = append(evs, event{kind: evType, weight: 2})
					}
				} else if !mainDone {
					evs = append(evs, event{kind: evType, weight: 2})
				}
			default:
				if quiet {
					evs = append(evs, event{kind: evType, weight: 1})
				}
			}
		}

		if len(evs) == 0 {
			switch {
			case mainDone && s.allAppsDone():
				// Only the resize task (or nothing) is still parked: cannot happen
				// for yields/reads (they would be enabled) unless FIFO is empty.
				s.Out.End = "RETURNED"
				if len(pend) > 0 {
					s.Out.EndDetail = "parked after return: " + s.describe(pend)
				}
			case mr != nil:
				s.Out.End = "WAITING"
				s.Out.EndDetail = mr.site
			case s.mainParkedCRead(pend):
				s.Out.End = "WAITING"
				s.Out.EndDetail = "cursor"
			default:
				s.Out.End = "DEADLOCK"
				s.Out.Blocked = s.describe(pend)
			}
			return
		}

		// ---- pick
		var ev event
		if spec.Plan.Policy == "canonical" || len(evs) == 1 {
			ev = evs[0]
		} else {
			total := 0
			for _, e := range evs {
				total += e.weight
			}
			v := s.choose(total)
			for _, e := range evs {
				if v < e.weight {
					ev = e
					break
				}
				v -= e.weight
			}
		}
		s.step++
		s.apply(ev)
	}
}

func (s *Session) mainParkedCRead(pend []*request) bool {
	for _, r := range pend {
		if r.task == s.main && r.kind == kCRead {
			return true
		}
	}
	return false
}

func (s *Session) describe(pend []*request) string {
	var parts []string
	for _, r := range pend {
		parts = append(parts, fmt.Sprintf("%s:%s@%s", r.task.Label, r.kind, r.site))
	}
	s.mu.Lock()
	for _, t := range s.order {
		parked := false
		for _, r := range pend {
			if r.task == t {
				parked = true
			}
		}
		if !parked && !t.Done {
			parts = append(parts, t.Label+":blocked-internally")
		}
	}
	s.mu.Unlock()
	return strings.Join(parts, " ")
}

func (s *Session) matchFault(r *request) int {
	for i, f := range s.Spec.Plan.Faults {
		if s.faultsDone[i] {
			continue
		}
		switch f.Kind {
		case "eof", "eio", "eintr", "data_eof", "unsolicited":
		default:
			continue
		}
		if f.ReadKind == r.site && f.Nth == r.nth {
			return i
		}
	}
	return -1
}

func (s *Session) remove(r *request) {
	s.mu.Lock()
	for i, p := range s.pending {
		if p == r {
			s.pending = append(s.pending[:i], s.pending[i+1:]...)
			break
		}
	}
	s.mu.Unlock()
}

func (s *Session) apply(ev event) {
	switch ev.kind {
	case evResume:
		r := ev.req
		r.task.parkedAt[r.site]++
		s.count("yield:" + r.task.Kind + "@" + r.site)
		s.th.add("resume", r.task.Label, r.site)
		s.il.add(r.task.Label, r.site)
		s.event("resume %s @%s", r.task.Label, r.site)
		s.remove(r)
		r.resp <- response{}
	case evDeliver:
		s.deliver(ev.req)
	case evEndRead:
		r := ev.req
		s.endReads++
		s.Out.EOFReads = s.endReads
		s.remove(r)
		s.th.add("endread", r.task.Label, r.site)
		s.event("endread %s %s", r.task.Label, r.site)
		if s.endReads > s.Spec.EOFBound {
			// put it back so teardown aborts it
			s.mu.Lock()
			s.pending = append(s.pending, r)
			s.mu.Unlock()
			s.Out.End = "LIVELOCK_EOF"
			return
		}
		if s.eio {
			r.resp <- response{0, syscall.EIO, false}
		} else {
			r.resp <- response{0, io.EOF, false}
		}
	case evFault:
		s.fault(ev.req, ev.fault)
	case evType:
		s.typeSome()
	}
}

func (s *Session) fault(r *request, fi int) {
	f := s.Spec.Plan.Faults[fi]
	s.faultsDone[fi] = true
	s.count("fault:" + f.Kind + "@" + r.site)
	s.th.add("fault", f.Kind, r.task.Label, r.site)
	s.event("FAULT %s on %s read #%d of %s", f.Kind, r.site, r.nth, r.task.Label)
	s.lastProgress = s.step
	switch f.Kind {
	case "eof":
		s.eof = true
		if len(s.fifo) > 0 {
			// data still queued is delivered first; EOF follows once drained
			s.deliver(r)
			return
		}
		s.remove(r)
		s.endReads++
		r.resp <- response{0, io.EOF, false}
	case "eio":
		s.eio = true
		s.fifo = nil
		s.remove(r)
		s.endReads++
		r.resp <- response{0, syscall.EIO, false}
	case "eintr":
		s.remove(r)
		r.resp <- response{0, syscall.EINTR, false}
	case "data_eof":
		s.eof = true
		if len(s.fifo) == 0 {
			s.remove(r)
			s.endReads++
			r.resp <- response{0, io.EOF, false}
			return
		}
		n := s.takeAll(r)
		s.remove(r)
		r.resp <- response{n, io.EOF, false}
	case "unsolicited":
		rep := fmt.Sprintf("\x1b[%d;%dR", 1+f.Arg%5, 2+f.Arg%7)
		for _, b := range []byte(rep) {
			s.fifo = append(s.fifo, fbyte{b, 0, srcUnsolicited})
		}
		s.deliver(r)
	}
}

// cuts returns the admissible delivery lengths for the head of the FIFO.
func (s *Session) cuts(max int) []int {
	var out []int
	n := len(s.fifo)
	if n > max {
		n = max
	}
	vi := s.Spec.Env.Mode == "vi" || s.Spec.Plan.ViRule
	for i := 1; i <= n; i++ {
		last := s.fifo[i-1]
		if i < len(s.fifo) {
			next := s.fifo[i]
			if last.grp != 0 && next.grp == last.grp {
				continue // inside a report
			}
			if vi && last.grp == 0 && last.b == 0x1b && next.grp == 0 && next.src == srcTyped {
				continue // no cut directly after a typed ESC in vi modes
			}
		}
		out = append(out, i)
	}
	if len(out) == 0 {
		out = append(out, n)
	}
	return out
}

func (s *Session) takeAll(r *request) int {
	n := len(s.fifo)
	if n > len(r.buf) {
		n = len(r.buf)
	}
	return s.take(r, n)
}

func (s *Session) take(r *request, n int) int {
	for i := 0; i < n; i++ {
		r.buf[i] = s.fifo[i].b
		if s.fifo[i].src == srcTyped {
			s.consumed++
		}
	}
	s.fifo = s.fifo[n:]
	return n
}

func (s *Session) deliver(r *request) {
	cuts := s.cuts(len(r.buf))
	n := cuts[len(cuts)-1]
	if s.forceCut != 0 {
		// deliver exactly up to the end of the first half of a cut report
		for i := 1; i <= len(s.fifo) && i <= len(r.buf); i++ {
			if s.fifo[i-1].grp == s.forceCut && (i == len(s.fifo) || s.fifo[i].grp != s.forceCut) {
				n = i
				s.forceCut = 0
				break
			}
		}
	} else {
		switch s.Spec.Plan.Class {
		case "S2", "S3":
			switch s.choose(4) {
			case 0:
			case 1:
				n = cuts[0]
			default:
				n = cuts[s.choose(len(cuts))]
			}
		}
	}
	hadReport, hadTyped := false, false
	for i := 0; i < n; i++ {
		if s.fifo[i].src == srcReport {
			hadReport = true
		} else {
			hadTyped = true
		}
	}
	if hadReport && hadTyped {
		s.count("reach:report_fused_with_typed")
	}
	if hadReport && r.kind == kRead {
		s.count("reach:report_via_handoff")
	}
	if hadTyped && r.kind == kCRead {
		s.count("reach:typed_into_cursor_read")
	}
	if n < len(s.fifo) {
		s.count("reach:partial_read")
	}
	switch {
	case r.kind == kRead && r.site == "main":
		typed := 0
		for i := 0; i < n; i++ {
			if s.fifo[i].src == srcTyped {
				typed++
			}
		}
		s.multiKey = typed > 1
	case r.kind == kRead && r.site == "arg":
		if s.multiKey || n < len(s.fifo) {
			s.count("reach:arg_read_with_typeahead")
		}
	}
	data := make([]byte, n)
	for i := 0; i < n; i++ {
		data[i] = s.fifo[i].b
	}
	s.take(r, n)
	s.remove(r)
	if hadTyped || r.task != s.main {
		// Input progress is the user's bytes being read (or another task getting its answer). The main loop
		// reading the answer to its own cursor query is not: a loop that redisplays for ever without
		// reading the keyboard is a busy loop, however many reports it consumes.
		s.lastProgress = s.step
	}
	s.th.add("deliver", r.task.Label, r.site, string(data))
	s.il.add(r.task.Label, r.kind.String(), r.site)
	s.event("deliver %q -> %s %s/%s", data, r.task.Label, r.kind, r.site)
	r.resp <- response{n, nil, false}
}

// typeSome moves the typist's next bytes into the tty queue.
func (s *Session) typeSome() {
	sc := s.Spec.Script
	tk := sc[s.tok].B
	rem := tk[s.off:]
	var data []byte
	ntok := 0
	switch s.Spec.Plan.Class {
	case "S0":
		data = rem
		ntok = 1
	case "S1":
		k := len(rem)
		if len(rem) > 1 && s.choose(3) == 1 {
			k = 1 + s.choose(len(rem)-1)
			if (s.Spec.Env.Mode == "vi" || s.Spec.Plan.ViRule) && rem[k-1] == 0x1b && k < len(rem) {
				k++
			}
		}
		data = rem[:k]
		if k == len(rem) {
			ntok = 1
			if s.Spec.Plan.Paste && s.choose(3) == 1 {
				ntok += s.choose(len(sc) - s.tok)
			}
		}
	default: // S2, S3
		switch s.choose(4) {
		case 0:
			data = rem
			ntok = 1
		case 1:
			k := 1 + s.choose(len(rem))
			if k > len(rem) {
				k = len(rem)
			}
			if s.Spec.Env.Mode == "vi" && rem[k-1] == 0x1b && k < len(rem) {
				k++
			}
			data = rem[:k]
			if k == len(rem) {
				ntok = 1
			}
		case 2:
			data = rem
			ntok = 1 + s.choose(4)
		default:
			data = rem
			ntok = len(sc) - s.tok
		}
	}
	if len(rem) == 0 {
		ntok = 1
	}
	out := append([]byte(nil), data...)
	if ntok >= 1 {
		s.tok++
		s.off = 0
		for i := 1; i < ntok && s.tok < len(sc); i++ {
			// vi: never fuse anything directly after an ESC-terminated token
			if s.Spec.Env.Mode == "vi" && len(out) > 0 && out[len(out)-1] == 0x1b {
				break
			}
			out = append(out, sc[s.tok].B...)
			s.tok++
		}
	} else {
		s.off += len(data)
	}
	for _, b := range out {
		s.fifo = append(s.fifo, fbyte{b, 0, srcTyped})
	}
	s.typedBytes += len(out)
	if len(out) > 0 {
		s.lastTypedESC = out[len(out)-1] == 0x1b
	}
	s.lastProgress = s.step
	s.th.add("type", string(out))
	s.il.add("type", strconv.Itoa(len(out)))
	s.event("type %q (tok=%d off=%d)", out, s.tok, s.off)
}

func (s *Session) fireDisturbances(pend []*request) (fired bool) {
	for i, d := range s.Spec.Plan.Disturb {
		if s.distDone[i] {
			continue
		}
		hit := false
		for _, r := range pend {
			if d.Task != "any" && d.Task != r.task.Kind {
				continue
			}
			switch {
			case r.kind == kYield && r.site == d.Site:
				hit = r.task.parkedAt[r.site]+1 == d.Nth
			case r.kind != kYield && d.Site == "read."+r.site:
				hit = r.nth == d.Nth
			case r.kind == kRead && r.site == "main" && d.Site == "inputwait" && len(s.fifo) == 0 && len(pend) == 1:
				hit = r.nth >= d.Nth
			case r.kind == kRead && r.site == "arg" && d.Site == "argwait" && len(s.fifo) == 0 && len(pend) == 1:
				hit = r.nth >= d.Nth
			}
			if hit {
				break
			}
		}
		if !hit {
			continue
		}
		s.distDone[i] = true
		fired = true
		s.dirty = true
		s.count("disturb:" + d.Kind + "@" + d.Site)
		s.Out.DisturbTok = append(s.Out.DisturbTok, s.tok)
		s.th.add("disturb", d.Kind, d.Site)
		s.il.add("disturb", d.Kind, d.Site)
		s.event("DISTURB %s at %s #%d", d.Kind, d.Site, d.Nth)
		switch d.Kind {
		case "sigwinch", "resize":
			if d.Kind == "resize" && d.W > 0 && d.H > 0 {
				s.P.setSize(d.W, d.H)
				s.Term.Resize(d.W, d.H)
				s.Out.Extra["resized"] = true
			}
			n := d.Burst
			if n < 1 {
				n = 1
			}
			for j := 0; j < n; j++ {
				s.mu.Lock()
				ch := s.resizeCh
				s.mu.Unlock()
				if ch != nil {
					select {
					case ch <- syscall.SIGWINCH:
					default:
						s.count("reach:sigwinch_coalesced")
					}
				}
			}
		case "printf":
			n := s.nApp
			msg := d.Msg
			s.startTask("app", func() { s.Sh.Printf("async message %d%s", n, msg) })
		case "printtransientf":
			n := s.nApp
			msg := d.Msg
			s.startTask("app", func() { s.Sh.PrintTransientf("transient message %d%s", n, msg) })
		}
	}
	return fired
}

func (s *Session) snapshot(kind string) Snap {
	sh := s.Sh
	sn := Snap{Step: s.step, Kind: kind, Tokens: s.tok, Partial: s.off, Consumed: s.consumed, Call: s.calls}
	func() {
		defer func() {
			if r := recover(); r != nil {
				s.Out.Extra["snapshot_panic"] = fmt.Sprint(r)
			}
		}()
		sn.Line = string(*sh.Line())
		sn.Pos = sh.Cursor().Pos()
		sn.Mark = sh.Cursor().Mark()
		sn.SelActive = sh.Selection().Active()
		if sn.SelActive {
			sn.SelB, sn.SelE = sh.Selection().Pos()
		}
		sn.Main = string(sh.Keymap.Main())
		sn.Local = string(sh.Keymap.Local())
		sn.Kill = string(sh.Buffers.GetKill())
	}()
	sn.ReportRow, sn.ReportCol = s.reportRow, s.reportCol
	sn.AnchorAbsRow = s.reportAbs
	sn.ReportWrap = s.reportWrap
	sn.Queries = s.queryCount
	sn.OutOff = int(s.outOff)
	sn.Dirty = s.dirty
	return sn
}

func (s *Session) inputWait(r *request) {
	// only snapshot once per distinct parked request
	if n := len(s.Out.Waits); n > 0 && s.Out.Waits[n-1].Step == s.step {
		return
	}
	sn := s.snapshot(r.site)
	if s.Spec.WantScreen {
		sn.Screen = s.Term.Clone()
	}
	s.dirty = false
	s.Out.Waits = append(s.Out.Waits, sn)
	// abstract state for coverage accounting
	shape := "empty"
	switch {
	case strings.Contains(sn.Line, "\n"):
		shape = "multiline"
	case len(sn.Line) == 0:
	case len([]rune(sn.Line))+len(s.Spec.Env.Prompt) >= s.Term.W:
		shape = "wrapped"
	default:
		shape = "1row"
	}
	for _, c := range sn.Line {
		if c > 0x7f {
			shape += "+u"
			break
		}
	}
	cpos := "mid"
	if sn.Pos == 0 {
		cpos = "start"
	} else if sn.Pos >= len([]rune(sn.Line)) {
		cpos = "end"
	}
	last := ""
	if s.tok > 0 && s.tok <= len(s.Spec.Script) {
		last = s.Spec.Script[s.tok-1].Cmd
	}
	abs := sn.Main + "/" + sn.Local + "/" + shape + "/" + cpos + "/" + last + "/" + r.site
	s.sg.add(abs)
	s.Out.States[hashStr(abs)] = struct{}{}
	s.th.add("wait", sn.Line, strconv.Itoa(sn.Pos), sn.Main, sn.Local)
	if s.Spec.Hooks.OnWait != nil {
		s.Spec.Hooks.OnWait(s, &s.Out.Waits[len(s.Out.Waits)-1])
	}
}

// Abort lets an oracle hook end the session early.
func (s *Session) Abort(reason string) {
	s.Out.Extra["aborted"] = reason
	s.Out.End = "ABORTED"
}

// InBubble runs f inside a synctest bubble (fake clock starting at the
// bubble epoch, so time.Now() is reproducible). It returns the panic
// message if f or the bubble panicked.
func InBubble(t *testing.T, f func()) (msg string) {
	defer func() {
		if r := recover(); r != nil {
			msg = fmt.Sprint(r)
		}
	}()
	synctest.Test(t, func(t *testing.T) {
		defer func() {
			if r := recover(); r != nil {
				msg = fmt.Sprint(r)
			}
		}()
		f()
	})
	return msg
}
